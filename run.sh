#!/bin/bash
# usage: run.sh <Cxx> <quick|thorough>
# Rebuilds the harness against /repo's current working tree (path dependencies, feature `verif` on), then runs the
# check. Exit 0 = held, 1 = violation (prints "VIOLATION property=<id> replay=<path>"), 2 = inconclusive (build
# error, watchdog, out of memory, abnormal termination) - never reported as a violation.
set -u
prop="$1"
tier="${2:-quick}"
export CARGO_NET_OFFLINE=true
mkdir -p /verif/out
cd /verif/harness || exit 2
if ! cargo build --release --offline >/verif/out/build.log 2>&1; then
    echo "BUILD-FAILED: harness does not build against /repo (see /verif/out/build.log)"
    tail -n 30 /verif/out/build.log
    exit 2
fi
if [ "$prop" = "C08" ]; then
    # second build of foyer-common / foyer-storage with the `serde` feature (own workspace: no feature unification)
    cd /verif/harness-serde || exit 2
    if ! cargo build --release --offline >/verif/out/build-serde.log 2>&1; then
        echo "BUILD-FAILED: harness-serde does not build against /repo (see /verif/out/build-serde.log)"
        tail -n 30 /verif/out/build-serde.log
        exit 2
    fi
fi
cd /verif || exit 2
# supervision: bound the address space and the wall clock so that a runaway loop or allocation inside the code under
# test ends this run as "inconclusive" instead of taking the machine down
if [ "$tier" = "thorough" ]; then budget=14400; else budget=1500; fi
( ulimit -S -v 41943040; exec timeout --signal=KILL "$budget" /verif/target/release/check "$prop" --tier "$tier" )
code=$?
case "$code" in
    0|1|2) exit "$code" ;;
    *)
        echo "INCONCLUSIVE property=$prop: check process ended abnormally (exit status $code: killed by watchdog / out of memory / abort); no verdict"
        # keep the evidence schema-valid: the run itself could not write it
        exit 2 ;;
esac
