#!/bin/sh
# usage: run.sh <Cxx> <quick|thorough>
# Rebuilds the harness against /repo's current working tree (path dependencies, feature `verif` on), then runs the
# check. Exit 0 = held, 1 = violation (prints "VIOLATION property=<id> replay=<path>"), 2 = inconclusive/build error.
set -u
prop="$1"
tier="${2:-quick}"
export CARGO_NET_OFFLINE=true
cd /verif/harness || exit 2
if ! cargo build --release --offline >/verif/out/build.log 2>&1; then
    mkdir -p /verif/out
    cargo build --release --offline >/verif/out/build.log 2>&1 || {
        echo "BUILD-FAILED: harness does not build against /repo (see /verif/out/build.log)"
        tail -n 30 /verif/out/build.log
        exit 2
    }
fi
cd /verif || exit 2
exec /verif/target/release/check "$prop" --tier "$tier"
