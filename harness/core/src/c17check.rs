//! C17 (memory half): distinct keys with the same 64-bit hash (or the same shard / low bits) never alias.
//!
//! memsim and fetchsim are re-run with a hasher that maps groups of keys onto one hash. With ample capacity nothing is
//! evicted, so the exact reference models apply: every lookup of k must return k's own current entry (misses are
//! not accepted), and every operation on k1 leaves k2 untouched. The hybrid half runs on hybsim.

use proptest::prelude::*;

use crate::{
    common::{CaseReport, Check, Tier},
    fetchcheck::{Which, exec_fetch, fop_c06},
    fetchsim::FCase,
    hasher::HashSpec,
    memchecks::{MemCase, algo_strategy, exec_mem, op_strategy},
    memoracle::Prop,
    memsim::{Algo, MemCfg},
};

/// collision tables over a universe of 6 keys
pub fn collision_spec() -> impl Strategy<Value = HashSpec> {
    prop_oneof![
        // full 64-bit collisions: pairs / triples share one hash
        Just(HashSpec::Table(vec![7, 7, 7, 9, 9, 5])),
        Just(HashSpec::Table(vec![0, 0, 1, 1, 2, 2])),
        Just(HashSpec::Table(vec![u64::MAX, u64::MAX, u64::MAX, u64::MAX, 3, 3])),
        Just(HashSpec::Table(vec![42, 42, 42, 42, 42, 42])),
        // same shard / same low bits, different hashes
        Just(HashSpec::Table(vec![4, 8, 12, 16, 20, 24])),
        Just(HashSpec::Table(vec![1 << 32, 2 << 32, 3 << 32, 1, (1 << 32) + 1, (2 << 32) + 1])),
    ]
}

fn mem_case(max_len: usize) -> impl Strategy<Value = MemCase> {
    (algo_strategy(), collision_spec(), 1usize..=4, 1..=max_len).prop_flat_map(|(algo, hash, shards, len)| {
        let cfg = MemCfg {
            algo,
            capacity: 4096,
            shards,
            hash,
            universe: 6,
            pipe: true,
        };
        (Just(cfg), prop::collection::vec(op_strategy(6, 3, true), 1..=len)).prop_map(|(cfg, ops)| MemCase { cfg, ops })
    })
}

fn exec_mem_c17(case: &MemCase) -> CaseReport {
    let mut rep = exec_mem(Prop::Any, case);
    // non-trivial: at least two keys with the same hash were resident at once / operated on
    let mut keys_by_hash: std::collections::BTreeMap<u64, std::collections::BTreeSet<u8>> = Default::default();
    for op in &case.ops {
        if let crate::memsim::MemOp::Insert { k, admit: true, .. } = op {
            keys_by_hash.entry(case.cfg.hash.hash_of(*k as u64)).or_default().insert(*k);
        }
    }
    rep.nontrivial = keys_by_hash.values().any(|s| s.len() >= 2);
    if let Some(f) = rep.failure.as_mut() {
        f.signature = format!("memory:{}", f.signature);
    }
    rep
}

fn fetch_case(max_len: usize) -> impl Strategy<Value = FCase> {
    let algos = Algo::defaults();
    (0..algos.len(), collision_spec(), 1usize..=2, 1..=max_len).prop_flat_map(move |(ai, hash, shards, len)| {
        let algo = algos[ai].clone();
        prop::collection::vec(fop_c06(4), 1..=len).prop_map(move |ops| FCase {
            algo: algo.clone(),
            shards,
            ops,
            hash: hash.clone(),
        })
    })
}

fn exec_fetch_c17(case: &FCase) -> CaseReport {
    let mut rep = exec_fetch(Which::C06, case);
    let mut keys_by_hash: std::collections::BTreeMap<u64, std::collections::BTreeSet<u8>> = Default::default();
    for op in &case.ops {
        if let crate::fetchsim::FOp::Call { k, .. } = op {
            keys_by_hash.entry(case.hash.hash_of(*k as u64)).or_default().insert(*k);
        }
    }
    rep.nontrivial = keys_by_hash.values().any(|s| s.len() >= 2);
    if let Some(f) = rep.failure.as_mut() {
        f.signature = format!("inflight:{}", f.signature);
    }
    rep
}

fn exec_hybrid_c17(case: &crate::hybchecks::HybCase) -> CaseReport {
    let mut rep = crate::hybchecks::exec_c01_as("ALL:C17", case);
    // non-trivial: a lookup of k1 while k2 with the same hash has been written in this history
    let n = crate::hybchecks::normalize(case);
    let mut written: std::collections::BTreeMap<u64, std::collections::BTreeSet<u8>> = Default::default();
    let mut looked: std::collections::BTreeMap<u64, std::collections::BTreeSet<u8>> = Default::default();
    for op in &n.ops {
        match op {
            crate::hybsim::HOp::Insert { k, .. } | crate::hybsim::HOp::WriterInsert { k, .. } => {
                written.entry(n.cfg.hash.hash_of(*k as u64)).or_default().insert(*k);
            }
            crate::hybsim::HOp::Get { k } | crate::hybsim::HOp::Fetch { k, .. } => {
                looked.entry(n.cfg.hash.hash_of(*k as u64)).or_default().insert(*k);
            }
            _ => {}
        }
    }
    rep.nontrivial = written.iter().any(|(h, ws)| looked.get(h).map(|ls| ls.iter().any(|l| ws.iter().any(|w| w != l))).unwrap_or(false));
    // C17 is about aliasing between *different* keys: only a value that belongs to another key (or to no key) counts
    // here; staleness of the key's own versions is C01's business and reported there.
    let alias = |sig: &str| sig.starts_with("foreign-value") || sig.starts_with("garbage-value") || sig.starts_with("foreign-or-garbage-tiny") || sig.starts_with("lookup-never-resolves") || sig.starts_with("lookup-error");
    let mut all = rep.tolerated.clone();
    if let Some(f) = rep.failure.take() {
        all.push(f);
    }
    rep.tolerated.clear();
    rep.failure = all.into_iter().find(|f| alias(&f.signature));
    if let Some(f) = rep.failure.as_mut() {
        f.signature = format!("hybrid:{}", f.signature);
    }
    rep
}

pub fn replay_hybrid(case: crate::hybchecks::HybCase) -> Option<crate::common::Failure> {
    exec_hybrid_c17(&case).failure
}

pub fn run_memory_half(check: &Check) {
    let cases = check.tier.pick(20_000, 400_000);
    check.run_random("memory-collide", cases, || mem_case(60), exec_mem_c17);
    let cases = check.tier.pick(40_000, 600_000);
    check.run_random("inflight-collide", cases, || fetch_case(20), exec_fetch_c17);
}

pub fn replay_mem(case: MemCase) -> Option<crate::common::Failure> {
    exec_mem_c17(&case).failure
}
pub fn replay_fetch(case: FCase) -> Option<crate::common::Failure> {
    exec_fetch_c17(&case).failure
}

pub fn check_c17_memory_only(tier: Tier, seed: u64) -> Check {
    let mut check = Check::new("C17", "exploration", tier, seed);
    check.rule = "key sets built to collide under a user-supplied hasher (full 64-bit collisions of 2..6 keys, and same-shard / same-low-bits collisions): (memory) memsim histories with ample capacity judged by the exact reference model - every lookup of k returns k's own current entry, operations on k1 never change k2; (in-flight table) fetchsim histories over 4 colliding keys judged by the single-flight protocol model - flights of colliding keys stay separate; (hybrid) hybsim histories, both policies, held io, reopen: get(k) is a miss or k's current value, never a value whose embedded key differs. Non-trivial = at least two keys with one hash are inserted / fetched / on disk in the same history.".into();
    check.assumptions = vec!["contains() on the disk tier may be a false positive by documentation and is not asserted".into()];
    run_memory_half(&check);
    let cases = tier.pick(40_000, 800_000);
    let dom = crate::hybchecks::CfgDomain {
        collisions: true,
        ..Default::default()
    };
    check.run_random("hybrid-collide", cases, || crate::hybchecks::c01_case(40, dom), exec_hybrid_c17);
    check
}
