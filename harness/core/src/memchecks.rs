//! Checks built on memsim + memoracle: C05 (accounting / bound), C13 (leave notifications / pipe), C18 (handles).

use proptest::prelude::*;
use serde::{Deserialize, Serialize};
use serde_json::json;

use crate::{
    common::{CaseReport, Check, Failure, Tier},
    hasher::HashSpec,
    memoracle::{Prop, judge},
    memsim::{Algo, MemCfg, MemOp, MemSim},
};

#[derive(Clone, Debug, Serialize, Deserialize)]
pub struct MemCase {
    pub cfg: MemCfg,
    pub ops: Vec<MemOp>,
}

pub fn algo_strategy() -> impl Strategy<Value = Algo> {
    prop_oneof![
        Just(Algo::Fifo),
        prop_oneof![Just(0u8), Just(10), Just(50), Just(90), Just(100)].prop_map(|r| Algo::Lru { ratio_pct: r }),
        prop_oneof![Just((10u8, 80u8)), Just((30, 50)), Just((50, 40)), Just((1, 1))]
            .prop_map(|(w, p)| Algo::Lfu { window_pct: w, protected_pct: p, eps_milli: 1 }),
        (
            prop_oneof![Just(10u8), Just(25), Just(50)],
            prop_oneof![Just(0u8), Just(50), Just(100)],
            1u8..=3
        )
            .prop_map(|(s, g, t)| Algo::S3Fifo { small_pct: s, ghost_pct: g, thr: t }),
        Just(Algo::Sieve),
    ]
}

pub fn cfg_strategy(max_cap: usize, max_shards: usize, universe: u8, pipe: bool) -> impl Strategy<Value = MemCfg> {
    // `pipe`: a recording pipe may be installed; one case in four runs with the listener only (the code paths that
    // decide "is there anyone to notify" differ)
    (algo_strategy(), 0..=max_cap, 1..=max_shards, prop::bool::weighted(0.75)).prop_map(move |(algo, capacity, shards, with_pipe)| MemCfg {
        algo,
        capacity,
        shards,
        hash: HashSpec::Identity,
        universe,
        pipe: pipe && with_pipe,
    })
}

/// Random op with weights up to `maxw`.
pub fn op_strategy(universe: u8, maxw: u8, with_rejects: bool) -> impl Strategy<Value = MemOp> {
    let k = 0..universe;
    prop_oneof![
        8 => (k.clone(), 0..=maxw, any::<bool>(), prop::bool::weighted(0.25)).prop_map(move |(k, w, low, hold)| MemOp::Insert {
            k,
            w,
            low: low && w % 2 == 0,
            admit: true,
            hold
        }),
        1 => (k.clone(), 0..=maxw, prop::bool::weighted(0.6)).prop_map(move |(k, w, hold)| MemOp::Insert {
            k,
            w,
            low: false,
            admit: !with_rejects,
            hold
        }),
        4 => k.clone().prop_map(|k| MemOp::Get { k }),
        3 => (k.clone(), 0..=maxw, prop::bool::weighted(0.6)).prop_map(|(k, w, hold)| MemOp::FetchReady { k, w, hold }),
        2 => k.clone().prop_map(|k| MemOp::Touch { k }),
        1 => k.clone().prop_map(|k| MemOp::Contains { k }),
        1 => any::<u16>().prop_map(|h| MemOp::CloneHandle { h }),
        4 => any::<u16>().prop_map(|h| MemOp::DropHandle { h }),
        2 => (k.clone(), prop::bool::weighted(0.3)).prop_map(|(k, hold)| MemOp::Remove { k, hold }),
        1 => Just(MemOp::Clear),
        1 => (0..=maxw).prop_map(|c| MemOp::Resize { c }),
        1 => Just(MemOp::EvictAll),
        1 => Just(MemOp::Flush),
    ]
}

pub fn case_strategy(max_len: usize, with_rejects: bool) -> impl Strategy<Value = MemCase> {
    (cfg_strategy(8, 4, 6, true), 1..=max_len).prop_flat_map(move |(cfg, len)| {
        let maxw = (cfg.capacity + 2) as u8;
        let universe = cfg.universe;
        (Just(cfg), prop::collection::vec(op_strategy(universe, maxw, with_rejects), 1..=len))
            .prop_map(|(cfg, ops)| MemCase { cfg, ops })
    })
}

/// The exhaustive alphabet (design §C05): 3 keys, weights {0,1,2,cap}.
pub fn exhaustive_alphabet(cap: usize, with_resize: bool) -> Vec<MemOp> {
    let mut a = vec![];
    let mut ws = vec![0u8, 1, 2, cap as u8];
    ws.sort();
    ws.dedup();
    for k in 0..3u8 {
        for &w in &ws {
            a.push(MemOp::Insert { k, w, low: false, admit: true, hold: false });
        }
    }
    for k in 0..3u8 {
        a.push(MemOp::Get { k });
    }
    for k in 0..3u8 {
        a.push(MemOp::Touch { k });
    }
    // get_or_fetch (origin ready at once): handle kept / dropped at once
    a.push(MemOp::FetchReady { k: 0, w: 1, hold: true });
    a.push(MemOp::FetchReady { k: 1, w: 1, hold: false });
    a.push(MemOp::DropHandle { h: 0 });
    for k in 0..3u8 {
        a.push(MemOp::Remove { k, hold: false });
    }
    a.push(MemOp::Clear);
    // two resize targets only (each resize spawns one OS thread per shard; random histories cover the rest)
    let mut cs = vec![1u8, cap as u8];
    cs.sort();
    cs.dedup();
    if with_resize {
        for c in cs {
            a.push(MemOp::Resize { c });
        }
    }
    a.push(MemOp::EvictAll);
    // disk-only (filter-rejected) insert, held and dropped later
    a.push(MemOp::Insert { k: 0, w: 1, low: false, admit: false, hold: true });
    a.push(MemOp::Insert { k: 1, w: 1, low: true, admit: true, hold: true });
    a
}

pub struct ExhaustiveSpace {
    pub configs: Vec<MemCfg>,
    pub max_len: usize,
    alphabets: Vec<Vec<MemOp>>,
    /// per config: number of sequences of length 1..=max_len
    sizes: Vec<u64>,
}

impl ExhaustiveSpace {
    pub fn new(configs: Vec<MemCfg>, max_len: usize, with_resize: bool) -> Self {
        let alphabets: Vec<Vec<MemOp>> = configs
            .iter()
            .map(|c| exhaustive_alphabet(c.capacity, with_resize))
            .collect();
        let sizes = alphabets
            .iter()
            .map(|a| {
                let n = a.len() as u64;
                (1..=max_len as u32).map(|l| n.pow(l)).sum()
            })
            .collect();
        Self {
            configs,
            max_len,
            alphabets,
            sizes,
        }
    }

    pub fn total(&self) -> u64 {
        self.sizes.iter().sum()
    }

    /// Cases are ordered by length first (shortest failing sequence has the smallest index within a config).
    pub fn make(&self, mut i: u64) -> MemCase {
        let mut c = 0;
        while i >= self.sizes[c] {
            i -= self.sizes[c];
            c += 1;
        }
        let a = &self.alphabets[c];
        let n = a.len() as u64;
        let mut len = 1u32;
        while i >= n.pow(len) {
            i -= n.pow(len);
            len += 1;
        }
        let mut ops = Vec::with_capacity(len as usize);
        for _ in 0..len {
            ops.push(a[(i % n) as usize].clone());
            i /= n;
        }
        MemCase {
            cfg: self.configs[c].clone(),
            ops,
        }
    }
}

pub fn exhaustive_configs(tier: Tier) -> Vec<MemCfg> {
    let mut v = vec![];
    let grid: Vec<(usize, usize)> = match tier {
        Tier::Quick => vec![(2, 1), (3, 2)],
        Tier::Thorough => vec![(0, 1), (1, 1), (2, 1), (3, 1), (3, 2), (2, 3), (4, 2)],
    };
    for algo in Algo::defaults() {
        for &(capacity, shards) in &grid {
            v.push(MemCfg {
                algo: algo.clone(),
                capacity,
                shards,
                hash: HashSpec::Identity,
                universe: 3,
                pipe: true,
            });
        }
    }
    v
}

pub fn exec_mem(prop: Prop, case: &MemCase) -> CaseReport {
    let trace = MemSim::run(case.cfg.clone(), None, &case.ops);
    let j = judge(&case.cfg, &case.ops, &trace);
    let f = &j.flags;
    let mut classes = vec![];
    macro_rules! cls {
        ($cond:expr, $name:expr) => {
            if $cond {
                classes.push($name);
            }
        };
    }
    cls!(f.weighted_replace, "weighted-replace");
    cls!(f.clear_then_insert, "clear-then-insert");
    cls!(f.resize_below_usage_with_handle, "resize-below-usage-with-handle");
    cls!(f.multi_evict_insert, "insert-evicts-2plus");
    cls!(f.any_replace, "replace");
    cls!(f.any_remove, "remove");
    cls!(f.any_capacity_evict, "capacity-evict");
    cls!(f.phantom_any, "disk-only-entry");
    cls!(f.phantom_outlives_op, "disk-only-handle-outlives-op");
    cls!(f.pinned_survived_round, "lru-pinned-survived-round");
    cls!(f.pinned_released_then_evicted, "lru-pinned-released-then-evicted");
    cls!(f.handle_outlived_entry, "handle-outlived-entry");
    cls!(f.evict_all_or_flush, "evict-all-or-flush");
    cls!(f.cache_drop_with_residents, "cache-drop-with-residents");
    cls!(f.over_capacity_pinned, "over-capacity-all-pinned");
    cls!(f.touch_hit, "touch-hit");
    classes.push(case.cfg.algo.name());
    let nontrivial = match prop {
        Prop::C05 => f.weighted_replace || f.clear_then_insert || f.resize_below_usage_with_handle || f.multi_evict_insert,
        Prop::C13 => (f.any_replace && f.any_remove && f.any_capacity_evict) || f.phantom_outlives_op,
        Prop::C18 => f.pinned_released_then_evicted || f.handle_outlived_entry,
        Prop::Any => true,
    };
    CaseReport {
        nontrivial,
        classes,
        discarded: false,
        failure: j.first_for(prop),
        tolerated: vec![],
    }
}

/// C05 sub-check: shard capacities add up to the configured capacity (observed through unit-weight fills).
#[derive(Clone, Debug, Serialize, Deserialize)]
pub struct CapDistCase {
    pub algo: Algo,
    pub capacity: usize,
    pub shards: usize,
    pub resize_to: Option<usize>,
}

pub fn exec_capdist(case: &CapDistCase) -> CaseReport {
    use foyer::{Cache, CacheBuilder};
    let cache: Cache<u64, u64, crate::hasher::SpecHasher> = CacheBuilder::new(case.capacity)
        .with_shards(case.shards)
        .with_eviction_config(case.algo.eviction_config())
        .with_hash_builder(crate::hasher::SpecHasher::new(HashSpec::Identity))
        .build();
    let mut cap = case.capacity;
    if let Some(c) = case.resize_to {
        if cache.resize(c).is_err() {
            return CaseReport::default().fail(Failure::new("resize-error", format!("resize({c}) failed")));
        }
        cap = c;
    }
    // fill every shard with more unit-weight keys than it can hold
    let per = cap / case.shards + 2;
    let mut k = 0u64;
    for _round in 0..per + 1 {
        for _s in 0..case.shards {
            cache.insert(k, k);
            k += 1;
        }
    }
    let mut per_shard = vec![0usize; case.shards];
    for key in 0..k {
        if cache.contains(&key) {
            per_shard[(key as usize) % case.shards] += 1;
        }
    }
    // a shard of capacity c keeps exactly c unit entries; a shard of capacity 0 keeps the last inserted entry, which is
    // the statement's "new entry alone is larger than the shard" carve-out (usage/entries expectations follow).
    let caps: Vec<usize> = (0..case.shards)
        .map(|s| cap / case.shards + usize::from(s < cap % case.shards))
        .collect();
    let want: Vec<usize> = caps.iter().map(|c| (*c).max(1)).collect();
    let want_total: usize = want.iter().sum();
    if caps.iter().sum::<usize>() != cap {
        unreachable!("harness: shard capacity formula does not sum to the capacity");
    }
    let mut rep = CaseReport {
        nontrivial: case.shards > 1 && cap % case.shards != 0 || case.shards > cap,
        classes: vec![if case.shards > cap { "shards>capacity" } else { "shards<=capacity" }],
        ..Default::default()
    };
    if per_shard != want || cache.usage() != want_total || cache.entries() != want_total {
        rep.failure = Some(Failure::new(
            "shard-capacity-distribution",
            format!(
                "capacity {cap} over {} shards: saturated shards hold {per_shard:?} unit entries (usage {} entries {}), expected {want:?} (zero-capacity shards keep one oversize entry)",
                case.shards,
                cache.usage(),
                cache.entries()
            ),
        ));
    }
    rep
}

fn common_mem_check(check: &Check, prop: Prop, with_rejects: bool) {
    // replay saved regression cases first
    // 1. bounded-exhaustive
    let depth = match (prop, check.tier) {
        (_, Tier::Quick) => 3,
        (_, Tier::Thorough) => 4,
    };
    // (a) all configurations, alphabet without resize (resize() spawns one OS thread per shard: ~80us each here)
    let space = ExhaustiveSpace::new(exhaustive_configs(check.tier), depth, false);
    let total = space.total();
    check.set_extra("exhaustive_sequences", json!(total));
    check.set_extra("exhaustive_depth", json!(depth));
    check.run_exhaustive("exhaustive", total, |i| space.make(i), |c| exec_mem(prop, c));
    let small_cfgs = |capacity: usize, shards: usize| -> Vec<MemCfg> {
        Algo::defaults()
            .into_iter()
            .map(|algo| MemCfg {
                algo,
                capacity,
                shards,
                hash: HashSpec::Identity,
                universe: 3,
                pipe: true,
            })
            .collect()
    };
    // (b) the alphabet with resize, one small configuration per algorithm
    let rs = ExhaustiveSpace::new(small_cfgs(3, 2), depth, true);
    let rs_total = rs.total();
    check.add_extra_count("exhaustive_sequences", rs_total);
    check.run_exhaustive("exhaustive-resize", rs_total, |i| rs.make(i), |c| exec_mem(prop, c));
    // (b') the same without a pipe (listener only)
    let no_pipe: Vec<MemCfg> = small_cfgs(3, 2).into_iter().map(|mut c| { c.pipe = false; c }).collect();
    let rs2 = ExhaustiveSpace::new(no_pipe, depth, true);
    let rs2_total = rs2.total();
    check.add_extra_count("exhaustive_sequences", rs2_total);
    check.run_exhaustive("exhaustive-resize-listener-only", rs2_total, |i| rs2.make(i), |c| exec_mem(prop, c));
    // (c) one level deeper on one small configuration per algorithm
    let deep = ExhaustiveSpace::new(small_cfgs(2, 1), depth + 1, false);
    let deep_total = deep.total();
    check.add_extra_count("exhaustive_sequences", deep_total);
    check.run_exhaustive("exhaustive-deep", deep_total, |i| deep.make(i), |c| exec_mem(prop, c));
    // 2. random long histories
    let cases = check.tier.pick(6000, 200_000);
    let len = check.tier.pick(120, 300);
    check.run_random("random", cases, || case_strategy(len, with_rejects), |c: &MemCase| exec_mem(prop, c));
}

pub fn check_c05(tier: Tier, seed: u64) -> i32 {
    let mut check = Check::new("C05", "exploration", tier, seed);
    check.rule = "memsim histories (insert with weights 0..cap+2 / get+hold / touch / clone / drop / remove / clear / resize / evict_all / flush) on Cache with all five algorithms, capacities 0..8, shards 1..4: bounded-exhaustive over a 29-op alphabet (3 keys, weights {0,1,2,cap}) plus proptest random histories; oracle = event-driven reference model (usage == sum of findable weights, entries == count, each eviction necessary, bound re-established unless all others pinned, clear => 0). Non-trivial = history has a weighted replace, or clear followed by inserts, or resize below usage with a handle held, or one insert evicting >= 2 entries; distinct by (config, op sequence) fingerprint. Sub-check capdist: shard capacities sum to capacity for every (algo, capacity 0..12, shards 1..6, optional resize).".into();
    check.assumptions = vec![
        "single-threaded histories: every step is a quiescent point".into(),
        "capacity() getter after resize is not asserted (the statement does not claim it)".into(),
    ];
    // capdist (exhaustive, cheap)
    let mut capcases = vec![];
    for algo in Algo::defaults() {
        for capacity in 0..=12usize {
            for shards in 1..=6usize {
                capcases.push(CapDistCase { algo: algo.clone(), capacity, shards, resize_to: None });
                for r in [0usize, 1, 5, 7, 12] {
                    capcases.push(CapDistCase { algo: algo.clone(), capacity, shards, resize_to: Some(r) });
                }
            }
        }
    }
    let n = capcases.len() as u64;
    check.run_exhaustive("capdist", n, |i| capcases[i as usize].clone(), exec_capdist);
    common_mem_check(&check, Prop::C05, true);
    check.exhaustive = false;
    check.finish()
}

pub fn check_c13(tier: Tier, seed: u64) -> i32 {
    let mut check = Check::new("C13", "exploration", tier, seed);
    check.rule = "memsim histories with a recording listener and a recording Pipe (Cache::with_pipe), every insert carries a unique id; bounded-exhaustive + proptest random; oracle = conservation: every admitted id gets exactly one on_leave with a reason permitted by the operation (insert: Evict for necessary victims, Replace for the old copy; remove: Remove; clear / cache drop: Clear; resize / evict_all / flush: Evict), none while contains(key) is still true (unless re-inserted by the same op), pipe offers == Evict-reason ids (+ disk-only entries on last handle drop) exactly once. Non-trivial = a replace, a remove and a capacity eviction in one history, or a disk-only entry whose handle outlives another op on its key; distinct by fingerprint.".into();
    check.assumptions = vec![
        "entries rejected by the memory filter (disk-only) are not 'admitted': their notification count is not asserted, only their single disk hand-off".into(),
        "multi-threaded conservation is covered by the memrace sub-check of C02/C13 when present".into(),
    ];
    common_mem_check(&check, Prop::C13, true);
    check.finish()
}

pub fn check_c18(tier: Tier, seed: u64) -> i32 {
    let mut check = Check::new("C18", "exploration", tier, seed);
    check.rule = "memsim histories of insert / get+hold / touch / clone / drop interleaved with replace, remove, clear, resize, eviction-forcing inserts; after every step every live handle must read its original key/value/weight, is_outdated() must equal 'model says a lookup would not return this entry', LRU must not evict a looked-up-and-held entry; epilogue drops all handles and inserts one weight-0 entry per shard: every shard must then be within capacity (nothing leaked as unevictable). Non-trivial = a handle outlived its entry (replaced/removed/cleared/evicted while held) or an LRU-pinned entry survived an eviction round and was later released and evicted.".into();
    check.assumptions = vec!["single-threaded; the multi-threaded release/acquire race is outside this check".into()];
    common_mem_check(&check, Prop::C18, true);
    check.finish()
}

pub fn replay_mem(prop: &str, case: MemCase) -> Option<Failure> {
    let p = match prop {
        "C05" => Prop::C05,
        "C13" => Prop::C13,
        "C18" => Prop::C18,
        _ => Prop::Any,
    };
    exec_mem(p, &case).failure
}
