//! C10: with the tombstone log, a flushed delete survives any number of restarts.

use std::collections::BTreeMap;

use proptest::prelude::*;
use serde::{Deserialize, Serialize};

use crate::{
    common::{CaseReport, Check, Failure, Tier},
    fmtparse::{WriteKind, classify_write},
    hasher::HashSpec,
    hval::Decoded,
    hybsim::{HybCfg, HybSim, KeyClass, LookupOut},
    memsim::Algo,
    simdev::IoKind,
};

#[derive(Clone, Debug, Serialize, Deserialize, PartialEq, Eq)]
pub enum TOp {
    /// insert `n` new keys (one page each)
    InsertMany { n: u16 },
    /// delete the `n` oldest live keys
    DeleteLive { n: u16 },
    /// delete `n` keys that were never inserted (they only advance the log)
    DeleteFresh { n: u16 },
    /// insert `n` new keys and delete them at once, while their writes are still queued (not yet indexed): the
    /// deletes race the inserts in the flusher's queue
    InsertThenDelete { n: u16 },
    /// insert again the `n` most recently deleted keys
    Reinsert { n: u16 },
    Wait,
    /// graceful close + reopen
    Reopen,
    /// wait(), then the process dies (only completed device writes survive), reopen
    CrashAfterWait,
}

#[derive(Clone, Debug, Serialize, Deserialize)]
pub struct TCase {
    pub blocks: usize,
    pub write_on_insertion: bool,
    pub flushers: usize,
    pub ops: Vec<TOp>,
}

fn count_strategy() -> impl Strategy<Value = u16> {
    prop_oneof![
        3 => 1u16..=6,
        2 => prop_oneof![Just(255u16), Just(256), Just(257), Just(300)],
        1 => prop_oneof![Just(511u16), Just(512), Just(513)],
        1 => 100u16..=700,
    ]
}

fn top() -> impl Strategy<Value = TOp> {
    prop_oneof![
        3 => (1u16..=40).prop_map(|n| TOp::InsertMany { n }),
        4 => count_strategy().prop_map(|n| TOp::DeleteLive { n }),
        4 => count_strategy().prop_map(|n| TOp::DeleteFresh { n }),
        2 => (1u16..=10).prop_map(|n| TOp::Reinsert { n }),
        3 => (1u16..=12).prop_map(|n| TOp::InsertThenDelete { n }),
        2 => Just(TOp::Wait),
        4 => Just(TOp::Reopen),
        2 => Just(TOp::CrashAfterWait),
    ]
}

pub fn tcase() -> impl Strategy<Value = TCase> {
    (prop_oneof![Just(16usize), Just(24), Just(40), Just(64)], any::<bool>(), 1usize..=2, prop::collection::vec(top(), 2..=14)).prop_map(
        |(blocks, write_on_insertion, flushers, ops)| TCase {
            blocks,
            write_on_insertion,
            flushers,
            ops,
        },
    )
}

fn cfg_of(case: &TCase) -> HybCfg {
    HybCfg {
        write_on_insertion: case.write_on_insertion,
        algo: Algo::Fifo,
        mem_capacity: 64 * 1024,
        mem_shards: 1,
        tombstone: true,
        compression: 0,
        flushers: case.flushers,
        reclaimers: 1,
        blocks: case.blocks,
        block_size: 64 * 1024,
        blob_index_size: 4096,
        clean_block_threshold: 1,
        flush_on_close: true,
        hash: HashSpec::Identity,
        key_class: vec![KeyClass::DiskAllowed; 4],
        buffer_pool_size: case.flushers * 8 * 64 * 1024,
        submit_queue_threshold: 1 << 30,
        admission_reject: vec![],
        reinsert: vec![],
        indexer_shards: 4,
        invalid_ratio_picker: false,
        hold_io: false,
        probation_pct: 10,
    }
}

#[derive(Clone, Copy, Debug, PartialEq)]
enum KState {
    Live(u64),
    Deleted,
}

pub fn exec_c10(case: &TCase) -> CaseReport {
    let cfg = cfg_of(case);
    // HybSim indexes key_class by key for its own op interpreter only; the raw helpers used here do not
    let device_pages = cfg.device_capacity() / 4096;
    let mut sim = HybSim::new(cfg.clone());
    let mut model: BTreeMap<u64, KState> = BTreeMap::new();
    let mut live_order: Vec<u64> = vec![];
    let mut deleted_order: Vec<u64> = vec![];
    let mut next_key = 1u64;
    let mut next_fresh = 1_000_000u64;
    let mut total_tombstones = 0usize;
    let mut max_between_reopen = 0usize;
    let mut since_reopen = 0usize;
    let mut deletes_after_reopen = false;
    let mut reopens = 0usize;
    let mut failure: Option<Failure> = None;
    let mut out_of_domain = false;
    let mut classes: Vec<&'static str> = vec![];
    let mut second_page = false;
    let mut reinserted_any = false;
    let mut delete_raced_insert = false;

    let verify = |sim: &mut HybSim, model: &BTreeMap<u64, KState>, when: &str, failure: &mut Option<Failure>| {
        for (k, st) in model {
            if failure.is_some() {
                return;
            }
            match sim.raw_get(*k) {
                Err(_) => {
                    *failure = Some(Failure::new("lookup-hangs-after-reopen", format!("{when}: get({k}) never resolves")));
                }
                Ok(out) => match (st, &out) {
                    (KState::Deleted, LookupOut::Miss) => {}
                    (KState::Deleted, o) => {
                        *failure = Some(Failure::new(
                            "deleted-key-is-back",
                            format!("{when}: key {k} was deleted (flushed, tombstone log on) and not inserted again, but get({k}) = {o:?}"),
                        ));
                    }
                    (KState::Live(v), LookupOut::Hit { decoded: Decoded::Valid { key, version }, .. }) if key == k && version == v => {}
                    (KState::Live(v), o) => {
                        *failure = Some(Failure::new(
                            if matches!(o, LookupOut::Miss) { "reinserted-key-hidden" } else { "wrong-version-after-reopen" },
                            format!("{when}: key {k} holds version {v} (flushed, no block reclaimed) but get({k}) = {o:?}"),
                        ));
                    }
                },
            }
        }
    };

    for (i, op) in case.ops.iter().enumerate() {
        if failure.is_some() || out_of_domain {
            break;
        }
        match op {
            TOp::InsertMany { n } => {
                // stay far below the device capacity so that nothing is ever reclaimed
                let room = (device_pages / 3).saturating_sub(live_order.len() + deleted_order.len());
                for _ in 0..(*n as usize).min(room) {
                    let k = next_key;
                    next_key += 1;
                    let v = sim.raw_insert(k, 1000);
                    model.insert(k, KState::Live(v));
                    live_order.push(k);
                }
                sim.raw_evict_all();
                sim.raw_settle();
            }
            TOp::DeleteLive { n } => {
                // stay within the log's capacity (one tombstone per device page)
                let n = (*n as usize).min(live_order.len()).min(device_pages.saturating_sub(total_tombstones));
                for k in live_order.drain(..n) {
                    sim.raw_remove(k);
                    model.insert(k, KState::Deleted);
                    deleted_order.push(k);
                }
                total_tombstones += n;
                since_reopen += n;
                if reopens > 0 && n > 0 {
                    deletes_after_reopen = true;
                }
                sim.raw_settle();
            }
            TOp::DeleteFresh { n } => {
                let n = (*n as usize).min(device_pages.saturating_sub(total_tombstones));
                for _ in 0..n {
                    sim.raw_remove(next_fresh);
                    next_fresh += 1;
                }
                total_tombstones += n;
                since_reopen += n;
                if reopens > 0 && n > 0 {
                    deletes_after_reopen = true;
                }
                sim.raw_settle();
            }
            TOp::InsertThenDelete { n } => {
                let room = (device_pages / 3).saturating_sub(live_order.len() + deleted_order.len());
                let n = (*n as usize).min(room).min(device_pages.saturating_sub(total_tombstones));
                let mut keys = vec![];
                for _ in 0..n {
                    let k = next_key;
                    next_key += 1;
                    let _ = sim.raw_insert(k, 1000);
                    keys.push(k);
                }
                // hand them to the disk tier (write-on-eviction: by evicting), then delete without letting the
                // flushers run in between
                sim.raw_evict_all();
                for k in keys {
                    sim.raw_remove(k);
                    model.insert(k, KState::Deleted);
                    deleted_order.push(k);
                }
                total_tombstones += n;
                since_reopen += n;
                if reopens > 0 && n > 0 {
                    deletes_after_reopen = true;
                }
                if n > 0 {
                    delete_raced_insert = true;
                }
                sim.raw_settle();
            }
            TOp::Reinsert { n } => {
                let n = (*n as usize).min(deleted_order.len());
                for _ in 0..n {
                    let k = deleted_order.pop().unwrap();
                    let v = sim.raw_insert(k, 1000);
                    model.insert(k, KState::Live(v));
                    live_order.push(k);
                    reinserted_any = true;
                }
                sim.raw_evict_all();
                sim.raw_settle();
            }
            TOp::Wait => {
                if sim.raw_wait().is_err() {
                    failure = Some(Failure::new("wait-hangs", format!("op {i}: wait() never resolves")));
                }
            }
            TOp::Reopen | TOp::CrashAfterWait => {
                max_between_reopen = max_between_reopen.max(since_reopen);
                if total_tombstones > 256 {
                    second_page = true;
                }
                let r = if matches!(op, TOp::Reopen) {
                    sim.raw_reopen()
                } else {
                    // flush memory to disk and acknowledge everything, then die
                    sim.raw_evict_all();
                    match sim.raw_wait() {
                        Err(_) => Err("wait() never resolves".to_string()),
                        Ok(()) => sim.raw_crash_reopen(&[]),
                    }
                };
                if let Err(e) = r {
                    failure = Some(Failure::new("reopen-failed", format!("op {i}: {e}")));
                    break;
                }
                reopens += 1;
                since_reopen = 0;
                verify(&mut sim, &model, &format!("after reopen #{reopens} (op {i}, {total_tombstones} tombstones logged so far)"), &mut failure);
            }
        }
    }
    // final reopen + verification
    if failure.is_none() && !out_of_domain {
        if total_tombstones > 256 {
            second_page = true;
        }
        match sim.raw_reopen() {
            Err(e) => failure = Some(Failure::new("reopen-failed", format!("final: {e}"))),
            Ok(()) => {
                reopens += 1;
                verify(&mut sim, &model, &format!("after final reopen #{reopens} ({total_tombstones} tombstones logged)"), &mut failure);
            }
        }
    }
    // proviso: nothing was reclaimed (otherwise a reinserted key may legitimately miss)
    let log = sim.full_log();
    let reclaimed = log
        .iter()
        .filter(|(_, r)| r.kind == IoKind::Write)
        .any(|(_, r)| matches!(classify_write(r.part, r.offset, r.data.as_ref().unwrap(), 4096, Some(0)), WriteKind::Clean));
    let (sb, sc) = sim.shed_counters();
    let _ = sim.finish();
    if reclaimed || sb > 0 || sc > 0 {
        out_of_domain = true;
    }
    if second_page {
        classes.push("second-log-page-reached");
    }
    if total_tombstones > 512 {
        classes.push("third-log-page-reached");
    }
    if deletes_after_reopen {
        classes.push("deletes-after-a-reopen");
    }
    if reinserted_any {
        classes.push("reinsert-after-delete");
    }
    if delete_raced_insert {
        classes.push("delete-while-insert-still-queued");
    }
    if case.ops.iter().any(|o| matches!(o, TOp::CrashAfterWait)) {
        classes.push("crash-after-acknowledged-wait");
    }
    if reopens >= 3 {
        classes.push("3+-restart-cycles");
    }
    if reclaimed {
        classes.push("reclaim(out-of-domain)");
    }
    CaseReport {
        nontrivial: second_page && deletes_after_reopen,
        classes,
        discarded: out_of_domain,
        failure: if out_of_domain { None } else { failure },
        tolerated: vec![],
    }
}

pub fn check_c10(tier: Tier, seed: u64) -> i32 {
    let mut check = Check::new("C10", "exploration", tier, seed);
    check.rule = "macro-op histories on HybridCache (simulated device, tombstone log on, both policies, 1-2 flushers): insert n new keys / delete the n oldest live keys / delete n never-inserted keys (they only advance the log) with n from {1..6, 255, 256, 257, 300, 511, 512, 513, 100..700} / re-insert recently deleted keys / wait / graceful reopen / crash right after an acknowledged wait; total tombstones bounded by the log capacity (one per device page), device sized so that nothing is reclaimed (verified from the write log, else the case is discarded). Oracle after every reopen and a final one: every deleted-and-not-reinserted key misses, every live (incl. re-inserted) key hits with its exact version. Non-trivial = more than 256 tombstones logged before some reopen (second log page reached) and at least one delete after a reopen.".into();
    check.assumptions = vec!["identity hasher (no collisions), so a hit on a deleted key cannot be a false positive".into()];
    let cases = tier.pick(60_000, 1_500_000);
    check.run_random("random", cases, tcase, exec_c10);
    check.finish()
}
