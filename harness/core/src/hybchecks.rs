//! Checks built on hybsim.

use proptest::prelude::*;
use serde::{Deserialize, Serialize};

use crate::{
    common::{CaseReport, Check, Tier},
    hasher::HashSpec,
    hyboracle::judge_c01,
    hybsim::{HOp, HybCfg, HybSim, KeyClass, Loc, Sz},
    memsim::Algo,
};

#[derive(Clone, Debug, Serialize, Deserialize)]
pub struct HybCase {
    pub cfg: HybCfg,
    pub ops: Vec<HOp>,
}

pub fn sz_strategy() -> impl Strategy<Value = Sz> {
    prop_oneof![
        1 => (0u8..=24).prop_map(Sz::Tiny),
        5 => any::<u16>().prop_map(Sz::Small),
        4 => (1u8..=3, -1i8..=1).prop_map(|(pages, delta)| Sz::PageEdge { pages, delta }),
        1 => Just(Sz::Max),
        1 => Just(Sz::Oversize),
    ]
}

#[derive(Clone, Copy, Debug)]
pub struct CfgDomain {
    pub collisions: bool,
    pub force_tombstone: Option<bool>,
    pub force_flush_on_close: Option<bool>,
    pub max_blocks: usize,
}

impl Default for CfgDomain {
    fn default() -> Self {
        Self {
            collisions: false,
            force_tombstone: None,
            force_flush_on_close: None,
            max_blocks: 8,
        }
    }
}

pub fn cfg_strategy(dom: CfgDomain) -> impl Strategy<Value = HybCfg> {
    let algos = Algo::defaults();
    (
        (any::<bool>(), 0..algos.len(), 6000usize..40000, 1usize..=2, any::<bool>(), 0u8..=2),
        (1usize..=2, 1usize..=2, 4usize..=dom.max_blocks, prop_oneof![Just(16usize), Just(32), Just(64)], 1usize..=2),
        (prop::bool::weighted(0.85), 3usize..=6, any::<u64>(), any::<bool>(), any::<bool>(), 0u8..=6),
    )
        .prop_map(
            move |(
                (woi, ai, mem_capacity, mem_shards, tombstone, compression),
                (flushers, reclaimers, blocks, block_kib, threshold),
                (flush_on_close, nkeys, class_bits, hold_io, irp, hsel),
            )| {
                let block_size = block_kib * 1024;
                // the engine's no-warning domain: flushers + clean_block_threshold <= blocks / 2
                let flushers = flushers.min((blocks / 2).saturating_sub(1).max(1));
                let threshold = threshold.min((blocks / 2).saturating_sub(flushers).max(1));
                let key_class: Vec<KeyClass> = (0..nkeys)
                    .map(|i| if (class_bits >> (i * 3)) & 7 == 0 { KeyClass::MemOnly } else { KeyClass::DiskAllowed })
                    .collect();
                let hash = if dom.collisions {
                    match hsel % 4 {
                        0 => HashSpec::Table(vec![7, 7, 7, 9, 9, 5]),
                        1 => HashSpec::Table(vec![0, 0, 1, 1, 2, 2]),
                        2 => HashSpec::Table(vec![42, 42, 42, 42, 42, 42]),
                        _ => HashSpec::Table(vec![4, 8, 12, 16, 20, 24]),
                    }
                } else {
                    HashSpec::Identity
                };
                HybCfg {
                    write_on_insertion: woi,
                    algo: algos[ai].clone(),
                    mem_capacity,
                    mem_shards,
                    tombstone: dom.force_tombstone.unwrap_or(tombstone),
                    compression,
                    flushers,
                    reclaimers,
                    blocks,
                    block_size,
                    blob_index_size: 4096,
                    clean_block_threshold: threshold,
                    flush_on_close: dom.force_flush_on_close.unwrap_or(flush_on_close),
                    hash,
                    key_class,
                    // large enough that the flush-buffer-full shedding limit cannot be reached by a history of this size
                    buffer_pool_size: flushers * 48 * block_size,
                    submit_queue_threshold: 1 << 30,
                    admission_reject: vec![],
                    reinsert: vec![],
                    indexer_shards: 4,
                    invalid_ratio_picker: irp,
                    hold_io,
                    probation_pct: 10,
                }
            },
        )
}

pub fn c01_op(universe: u8) -> impl Strategy<Value = HOp> {
    let k = 0..universe;
    prop_oneof![
        10 => (k.clone(), sz_strategy(), prop::bool::weighted(0.2), prop::bool::weighted(0.2), any::<bool>()).prop_map(|(k, sz, ondisk, hold, compressible)| HOp::Insert {
            k,
            sz,
            loc: if ondisk { Loc::OnDisk } else { Loc::Default },
            hold,
            compressible
        }),
        2 => (k.clone(), sz_strategy(), any::<bool>(), prop::bool::weighted(0.5)).prop_map(|(k, sz, force, hold)| HOp::WriterInsert { k, sz, force, hold }),
        3 => k.clone().prop_map(|k| HOp::Remove { k }),
        9 => k.clone().prop_map(|k| HOp::Get { k }),
        3 => (k.clone(), sz_strategy()).prop_map(|(k, sz)| HOp::Fetch { k, sz }),
        1 => k.clone().prop_map(|k| HOp::Contains { k }),
        3 => Just(HOp::MemEvictAll),
        2 => any::<u16>().prop_map(|h| HOp::DropHandle { h }),
        1 => Just(HOp::HoldIo),
        1 => prop::bool::weighted(0.4).prop_map(|admit| HOp::Admission { admit }),
        1 => Just(HOp::ReleaseIo),
        7 => any::<u16>().prop_map(|i| HOp::CompleteIo { i }),
        2 => Just(HOp::Drain),
        1 => Just(HOp::Wait),
        1 => Just(HOp::Clear),
        1 => Just(HOp::Reopen),
    ]
}

/// No flat_map: configuration and ops are independent components, so proptest can shrink both. Ops always draw keys
/// from 0..6 and are clamped to the configuration's universe by `normalize`.
pub fn c01_case(max_len: usize, dom: CfgDomain) -> impl Strategy<Value = HybCase> {
    (cfg_strategy(dom), prop::collection::vec(c01_op(6), 1..=max_len)).prop_map(|(cfg, ops)| HybCase { cfg, ops })
}

pub fn normalize(case: &HybCase) -> HybCase {
    let u = case.cfg.universe().max(1);
    let clamp = |k: u8| k.min(u - 1);
    let ops = case
        .ops
        .iter()
        .map(|op| match op.clone() {
            HOp::Insert { k, sz, loc, hold, compressible } => HOp::Insert { k: clamp(k), sz, loc, hold, compressible },
            HOp::WriterInsert { k, sz, force, hold } => HOp::WriterInsert { k: clamp(k), sz, force, hold },
            HOp::Remove { k } => HOp::Remove { k: clamp(k) },
            HOp::Get { k } => HOp::Get { k: clamp(k) },
            HOp::Fetch { k, sz } => HOp::Fetch { k: clamp(k), sz },
            HOp::Contains { k } => HOp::Contains { k: clamp(k) },
            o => o,
        })
        .collect();
    HybCase { cfg: case.cfg.clone(), ops }
}

pub fn exec_c01(case: &HybCase) -> CaseReport {
    exec_c01_as("C01", case)
}

/// The C01 oracle, with known findings looked up under `property` (C17 re-uses it on colliding key sets).
pub fn exec_c01_as(property: &str, case: &HybCase) -> CaseReport {
    let case = &normalize(case);
    let trace = HybSim::run(case.cfg.clone(), &case.ops);
    if std::env::var("VERIF_DETCHECK").is_ok() {
        let again = HybSim::run(case.cfg.clone(), &case.ops);
        let (a, b) = (serde_json::to_string(&trace).unwrap(), serde_json::to_string(&again).unwrap());
        if a != b {
            let pos = a.bytes().zip(b.bytes()).position(|(x, y)| x != y).unwrap_or(0);
            let lo = pos.saturating_sub(200);
            eprintln!("NONDET at {pos}:\n A: {}\n B: {}", &a[lo..(pos + 200).min(a.len())], &b[lo..(pos + 200).min(b.len())]);
            return CaseReport::default().fail(crate::common::Failure::new(
                "nondeterministic-trace",
                format!("two runs differ at byte {pos}: ...{} VS ...{}", &a[lo..(pos + 200).min(a.len())], &b[lo..(pos + 200).min(b.len())]),
            ));
        }
    }
    if std::env::var("VERIF_DUMP").is_ok() {
        eprintln!("{}", serde_json::to_string_pretty(&trace).unwrap());
    }
    let j = judge_c01(&case.cfg, &case.ops, &trace);
    if j.flags.shed && std::env::var("VERIF_DEBUGSHED").is_ok() {
        let max = case.cfg.max_value_len();
        let over: Vec<_> = trace.versions.iter().filter(|(_, _, l)| *l > max).collect();
        eprintln!(
            "SHED: buffer={} channel={} oversize_versions={:?} max={} comp={} ops={}",
            trace.steps.iter().map(|s| s.shed_buffer).max().unwrap_or(0),
            trace.steps.iter().map(|s| s.shed_channel).max().unwrap_or(0),
            over,
            max,
            case.cfg.compression,
            serde_json::to_string(&case.ops).unwrap()
        );
    }
    let f = &j.flags;
    let mut classes: Vec<&'static str> = vec![case.cfg.algo.name()];
    macro_rules! cls {
        ($cond:expr, $name:expr) => {
            if $cond {
                classes.push($name);
            }
        };
    }
    cls!(case.cfg.write_on_insertion, "write-on-insertion");
    cls!(!case.cfg.write_on_insertion, "write-on-eviction");
    cls!(case.cfg.tombstone, "tombstone-log");
    cls!(case.cfg.compression == 1, "zstd");
    cls!(case.cfg.compression == 2, "lz4");
    cls!(f.held_io, "held-io");
    cls!(f.lookup_with_pending_io, "lookup-with-pending-io");
    cls!(f.lookup_after_reopen, "lookup-after-reopen");
    cls!(f.lookup_multi_version, "lookup-of-multi-version-key");
    cls!(f.lookup_removed_key, "lookup-of-removed-key");
    cls!(f.disk_hits > 0, "disk-hit");
    cls!(f.hits > 0, "hit");
    cls!(f.shed, "shed(out-of-domain)");
    cls!(f.shed && trace.steps.iter().any(|s| s.shed_channel > 0), "shed-by-submit-queue-threshold");
    cls!(f.shed && trace.steps.iter().all(|s| s.shed_channel == 0), "shed-by-flush-buffer");
    cls!(f.oversize_insert, "oversize-insert");
    cls!(f.fetch_ran, "origin-fetch-ran");
    cls!(f.disk_only_insert, "disk-only-insert");
    cls!(f.hang, "hang");
    split_known(property, j.failures, f.nontrivial, classes, f.shed)
}

/// First failure that is not a listed known finding becomes the case's failure; listed ones are tolerated (counted and
/// reported as KNOWN-FINDING) so that the search continues behind them. VERIF_ALLSIG=1 tolerates everything (survey).
pub fn split_known(property: &str, failures: Vec<crate::common::Failure>, nontrivial: bool, classes: Vec<&'static str>, discarded: bool) -> CaseReport {
    static KNOWN: std::sync::OnceLock<crate::common::KnownFindings> = std::sync::OnceLock::new();
    let known = KNOWN.get_or_init(crate::common::KnownFindings::load);
    // "ALL:<prop>" = the caller filters the failures itself (every failure is handed back as tolerated)
    let survey = std::env::var("VERIF_ALLSIG").is_ok() || property.starts_with("ALL:");
    let mut failure = None;
    let mut tolerated = vec![];
    for f in failures {
        if survey || known.matches(property, &f.signature).is_some() {
            if !tolerated.iter().any(|t: &crate::common::Failure| t.signature == f.signature) {
                tolerated.push(f);
            }
        } else if failure.is_none() {
            failure = Some(f);
        }
    }
    CaseReport {
        nontrivial,
        classes,
        discarded,
        failure,
        tolerated,
    }
}

pub fn check_c01(tier: Tier, seed: u64) -> i32 {
    let mut check = Check::new("C01", "exploration", tier, seed);
    check.rule = "hybsim histories (insert / insert_with_properties / storage-writer insert / remove / get / get_or_fetch / contains / memory evict_all / handle drops / graceful reopen) on HybridCache over a simulated device whose io completion order the history chooses (hold, complete i-th, drain); configuration drawn per case (both policies, five algorithms, tombstone log on/off, none/zstd/lz4, flushers 1-2, reclaimers 1-2, 4-8 blocks of 16-64 KiB, value sizes from 0 bytes to per-entry maximum + 1). Every value is (key, version, len, keyed fill). Oracle: per-key write timeline; a lookup issued at step a and resolved at step b may return miss or a version w such that no other write is definitely after w and definitely before a (fetch-inserts are placed anywhere between origin poll and resolution); values must validate bit for bit. Non-trivial = a lookup of a key with >= 2 versions (or a removed key) resolved while that key had device ops pending, an older copy indexed on disk, or after a reopen. Cases in which a documented shedding limit fired are discarded and counted.".into();
    check.assumptions = vec![
        "each key keeps one placement class for the whole case (disk-allowed or memory-only), which excludes the documented alternating-advice carve-out by construction".into(),
        "without the tombstone log a reopen may bring back removed entries, and without flush_on_close it may bring back older versions: both documented, both permitted by the oracle".into(),
        "foyer's tasks run on one thread; task interleavings at await points are explored, data races between OS threads are not".into(),
    ];
    let cases = tier.pick(60_000, 1_500_000);
    let len = tier.pick(40, 120);
    check.run_random("random", cases, || c01_case(len, CfgDomain::default()), exec_c01);
    check.finish()
}
