//! C09: reusing disk space never damages live entries and never stalls writers.
//!
//! Sustained insert workloads of several device capacities on small devices, with held io and a generated completion
//! order that includes the reclaimer's reads and clean writes. Invariants are read off the simulated device's ordered
//! io log (never from timing), plus intact-or-absent lookups at quiescent points, a quiescence-based stall oracle and
//! reinsertion / reclaim-order clauses.

use std::collections::{BTreeMap, BTreeSet};

use proptest::prelude::*;
use serde::{Deserialize, Serialize};

use crate::{
    common::{CaseReport, Check, Failure, Tier, midx},
    fmtparse::{WriteKind, classify_write},
    hasher::HashSpec,
    hval::Decoded,
    hybsim::{ENTRY_OVERHEAD, HybCfg, HybSim, KeyClass, LookupOut},
    memsim::Algo,
    simdev::{IoKind, LogRec},
};

const PAGE: usize = 4096;

#[derive(Clone, Debug, Serialize, Deserialize, PartialEq, Eq)]
pub enum ROp {
    Insert { k: u8, pages: u8 },
    /// a burst of inserts of fresh keys (fills the device quickly)
    Burst { n: u8, pages: u8 },
    Delete { k: u8 },
    CompleteIo { i: u16 },
    /// complete everything (oldest first), then verify lookups
    DrainVerify,
    /// issue wait() and complete pending io in the given order until it resolves
    WaitPump { order: Vec<u16> },
}

#[derive(Clone, Debug, Serialize, Deserialize)]
pub struct RCase {
    pub blocks: usize,
    pub block_kib: usize,
    pub flushers: usize,
    pub reclaimers: usize,
    pub threshold: usize,
    pub reinsert: Vec<u8>,
    pub default_pickers: bool,
    /// flush buffer per flusher, in blocks (1-2 = a batch spans at most 2-3 blocks; 0 = 4 MiB regardless of the device)
    #[serde(default)]
    pub buffer_blocks: usize,
    pub ops: Vec<ROp>,
}

fn rop(with_deletes: bool) -> impl Strategy<Value = ROp> {
    prop_oneof![
        8 => (0u8..16, 1u8..=3).prop_map(|(k, pages)| ROp::Insert { k, pages }),
        5 => (2u8..=12, 1u8..=2).prop_map(|(n, pages)| ROp::Burst { n, pages }),
        if with_deletes { 2 } else { 0 } => (0u8..16).prop_map(|k| ROp::Delete { k }),
        10 => any::<u16>().prop_map(|i| ROp::CompleteIo { i }),
        3 => Just(ROp::DrainVerify),
        2 => prop::collection::vec(any::<u16>(), 0..=12).prop_map(|order| ROp::WaitPump { order }),
    ]
}

pub fn rcase() -> impl Strategy<Value = RCase> {
    (
        4usize..=12,
        prop_oneof![Just(16usize), Just(32), Just(64)],
        1usize..=3,
        1usize..=2,
        1usize..=2,
        prop_oneof![3 => Just(vec![]), 2 => Just(vec![1u8, 5]), 1 => Just(vec![0u8, 2, 9])],
        any::<bool>(),
        any::<bool>(),
        prop_oneof![3 => Just(1usize), 3 => Just(2), 1 => Just(0)],
    )
        .prop_flat_map(|(blocks, block_kib, flushers, reclaimers, threshold, reinsert, default_pickers, with_deletes, buffer_blocks)| {
            // the engine's no-warning domain: flushers + clean_block_threshold <= blocks / 2
            let flushers = flushers.min((blocks / 2).saturating_sub(1).max(1));
            let threshold = threshold.min((blocks / 2).saturating_sub(flushers).max(1));
            prop::collection::vec(rop(with_deletes), 10..=80).prop_map(move |ops| RCase {
                blocks,
                block_kib,
                flushers,
                reclaimers,
                threshold,
                reinsert: reinsert.clone(),
                default_pickers,
                buffer_blocks,
                ops,
            })
        })
}

/// The reinsertion working set has to leave room for progress: entries admitted by the reinsertion filter are
/// written again whenever their block is reclaimed, so a set that (with per-entry page alignment) needs about as many
/// blocks as the device can spare is re-written forever and no reclaim ever ends (wait() cannot return by
/// construction, not by defect). Domain (DESIGN C09): at most half a block of reinsertion data - keys of the
/// reinsertion set carry one-page values and the set is cut to half the entry pages of a block.
fn effective_reinsert(case: &RCase) -> Vec<u8> {
    if big_reinsert_key(case).is_some() {
        return vec![case.reinsert[0]];
    }
    let entry_pages = case.block_kib * 1024 / PAGE - 1;
    let n = (entry_pages / 2).max(1);
    case.reinsert.iter().copied().take(n).collect()
}

/// Second reinsertion class: a single admitted key whose entries fill a block exactly (the largest entry the disk
/// tier accepts). One such entry occupies one block; every other block still yields its whole space when reclaimed,
/// so writers keep making progress.
fn big_reinsert_key(case: &RCase) -> Option<u64> {
    if case.reinsert.len() == 2 { Some(case.reinsert[0] as u64) } else { None }
}

/// Structural condition of the known finding "stale entry after reuse": the stale version and the current version of
/// the key were written to different blocks and the block write of the older version was still unfinished (or not yet
/// issued, waiting for a clean block) when the block write of the newer version was issued - i.e. they belong to one
/// write batch of the key's flusher that spans several blocks (a flusher commits one batch at a time, in order, and a
/// key always goes to the same flusher, so across batches older versions reach the device first). Read from the
/// simulated device's log with the independent format reader.
fn versions_in_one_multi_block_batch(sim: &mut HybSim, index_size: usize, key: u64, stale: u64, current: u64) -> bool {
    let _ = current;
    let log: Vec<LogRec> = sim.full_log().into_iter().map(|(_, r)| r).collect();
    // shared with C01 / C04: an entry counts as written when its block part is complete (data write and the rewrite of
    // the blob index that follows it)
    crate::hyboracle::older_written_after_newer_in(log.iter(), index_size, None, key, stale)
}

/// Cases built around the reinsertion clause: no shedding (large flush buffer), the reinsertion keys are written and
/// acknowledged first, then the device is wrapped by bursts with verification points in between.
pub fn rcase_reinsert_focus() -> impl Strategy<Value = RCase> {
    (rcase(), any::<bool>(), prop::collection::vec((2u8..=12, 1u8..=2, any::<bool>()), 3..=8)).prop_map(|(mut case, big, bursts)| {
        case.buffer_blocks = 0;
        case.reinsert = if big { vec![1u8, 5] } else { vec![0u8, 2, 9] };
        let keys = effective_reinsert(&case);
        let mut ops: Vec<ROp> = keys.iter().map(|k| ROp::Insert { k: *k, pages: 1 }).collect();
        ops.push(ROp::DrainVerify);
        // keep the generated middle part, without writes to the reinsertion keys (their flushed version must stay the
        // current one) and without deletes of them
        for op in std::mem::take(&mut case.ops) {
            match &op {
                ROp::Insert { k, .. } | ROp::Delete { k } if keys.contains(k) => {}
                _ => ops.push(op),
            }
        }
        for (n, pages, verify) in bursts {
            ops.push(ROp::Burst { n, pages });
            if verify {
                ops.push(ROp::DrainVerify);
            }
        }
        ops.push(ROp::DrainVerify);
        case.ops = ops;
        case
    })
}

fn cfg_of(case: &RCase) -> HybCfg {
    let block_size = case.block_kib * 1024;
    HybCfg {
        write_on_insertion: true,
        algo: Algo::Fifo,
        mem_capacity: 1 << 20,
        mem_shards: 1,
        tombstone: false,
        compression: 0,
        flushers: case.flushers,
        reclaimers: case.reclaimers,
        blocks: case.blocks,
        block_size,
        blob_index_size: PAGE,
        clean_block_threshold: case.threshold,
        flush_on_close: true,
        hash: HashSpec::Identity,
        key_class: vec![KeyClass::DiskAllowed; 16],
        buffer_pool_size: if case.buffer_blocks == 0 { case.flushers * (4 << 20) } else { case.flushers * case.buffer_blocks * block_size },
        submit_queue_threshold: 1 << 30,
        admission_reject: vec![],
        reinsert: effective_reinsert(case),
        indexer_shards: 4,
        invalid_ratio_picker: case.default_pickers,
        hold_io: true,
        probation_pct: 10,
    }
}

#[derive(Default)]
struct RFlags {
    wraps: usize,
    reclaim_overlapping_flusher_write: bool,
    reinsertion_happened: bool,
    waits: usize,
    cleans: usize,
}

/// Log invariants (1), (2), (6). `log` is the ordered io log of one generation.
fn judge_log(case: &RCase, log: &[LogRec], failures: &mut Vec<Failure>, flags: &mut RFlags) {
    let index_size = PAGE;
    // per block: data ranges written in the current epoch, pending write intervals
    let mut epoch_ranges: BTreeMap<usize, Vec<(usize, usize, u64)>> = BTreeMap::new();
    // per block: (issue seq of the first write, issue seq of the last write) of the current epoch
    let mut fill_time: BTreeMap<usize, (u64, u64)> = BTreeMap::new();
    // reclaimed blocks with the write span of the epoch that was reclaimed
    let mut clean_order: Vec<(usize, (u64, u64))> = vec![];
    let mut deletes_seen = false;
    let _ = deletes_seen;
    // in-flight overlap: compare every pair of writes whose [issue, completion) intervals overlap in log order.
    // The log is ordered by issue; completion step is coarse (harness step), so use the order of records: a write A
    // is in flight when B is issued if A.completed_at is None or A.completed_at >= B.issued_at and A was issued before B.
    let writes: Vec<&LogRec> = log.iter().filter(|r| r.kind == IoKind::Write).collect();
    for (i, b) in writes.iter().enumerate() {
        let bdata = b.data.as_ref().unwrap();
        let kind = classify_write(b.part, b.offset, bdata, index_size, None);
        for a in writes[..i].iter().rev().take(64) {
            let a_in_flight = a.completed_clock.map(|c| c > b.issued_clock).unwrap_or(true);
            if a_in_flight && a.part == b.part && a.offset < b.offset + b.len && b.offset < a.offset + a.len {
                let akind = classify_write(a.part, a.offset, a.data.as_ref().unwrap(), index_size, None);
                failures.push(Failure::new(
                    "overlapping-in-flight-writes",
                    format!("write #{} ({:?}-like, block {} [{}, +{})) was issued while write #{} ({:?}-like, [{}, +{})) to an overlapping range of the same block was still in flight", b.seq, short(&kind), b.part, b.offset, b.len, a.seq, short(&akind), a.offset, a.len),
                ));
                return;
            }
            if a_in_flight && a.part == b.part {
                if matches!(kind, WriteKind::Clean) {
                    failures.push(Failure::new(
                        "block-cleaned-while-being-written",
                        format!("clean write #{} to block {} was issued while write #{} to that block was still in flight", b.seq, b.part, a.seq),
                    ));
                    return;
                }
                if matches!(classify_write(a.part, a.offset, a.data.as_ref().unwrap(), index_size, None), WriteKind::Clean) {
                    flags.reclaim_overlapping_flusher_write = true;
                    failures.push(Failure::new(
                        "block-written-while-being-cleaned",
                        format!("write #{} to block {} was issued while the clean write #{} of that block was still in flight", b.seq, b.part, a.seq),
                    ));
                    return;
                }
            }
        }
        match kind {
            WriteKind::Clean => {
                flags.cleans += 1;
                if let Some(t) = fill_time.remove(&b.part) {
                    clean_order.push((b.part, t));
                }
                epoch_ranges.remove(&b.part);
            }
            WriteKind::Data(_) | WriteKind::Unknown => {
                {
                    let e = fill_time.entry(b.part).or_insert((b.seq, b.seq));
                    e.1 = e.1.max(b.seq);
                }
                let ranges = epoch_ranges.entry(b.part).or_default();
                for (o, l, s) in ranges.iter() {
                    if *o < b.offset + b.len && b.offset < *o + *l {
                        failures.push(Failure::new(
                            "data-rewritten-within-block-epoch",
                            format!("data write #{} to block {} [{}, +{}) overlaps data write #{} [{}, +{}) of the same block epoch (two writers on one block, or a block reused without being cleaned)", b.seq, b.part, b.offset, b.len, s, o, l),
                        ));
                        return;
                    }
                }
                ranges.push((b.offset, b.len, b.seq));
            }
            WriteKind::BlobIndex(_) => {
                {
                    let e = fill_time.entry(b.part).or_insert((b.seq, b.seq));
                    e.1 = e.1.max(b.seq);
                }
                // index pages are rewritten in place; they must not overlap data of the epoch
                if let Some(ranges) = epoch_ranges.get(&b.part) {
                    for (o, l, s) in ranges {
                        if *o < b.offset + b.len && b.offset < *o + *l {
                            failures.push(Failure::new(
                                "index-overwrites-data",
                                format!("blob index write #{} to block {} [{}, +{}) overlaps entry data written by #{} [{}, +{})", b.seq, b.part, b.offset, b.len, s, o, l),
                            ));
                            return;
                        }
                    }
                }
            }
            WriteKind::Tombstones(_) => {}
        }
    }
    // (6) oldest-filled first: with the default pickers, one flusher and no deletes the order of clean writes is the order
    // in which the blocks were first written (per epoch)
    let no_deletes = !case.ops.iter().any(|o| matches!(o, ROp::Delete { .. }));
    // NOT part of the verdict (kept for the histogram only): an executable notion of "oldest-filled first" that is
    // robust against multi-block batches and held io could not be stated without raising alarms on the unchanged tree
    // (a block becomes evictable when the *next* batch spills past it, not when its last write completes). See DESIGN.md.
    if false && case.flushers == 1 && no_deletes && case.reinsert.is_empty() {
        // "oldest-filled first", in the form that does not depend on how concurrently written blocks of one batch are
        // ordered: a block whose every write was issued before the first write of another block must not be reclaimed
        // after that other block
        'outer: for i in 0..clean_order.len() {
            for j in i + 1..clean_order.len() {
                let (bi, (first_i, _)) = clean_order[i];
                let (bj, (_, last_j)) = clean_order[j];
                if last_j < first_i {
                    failures.push(Failure::new(
                        "reclaim-order-not-oldest-first",
                        format!("one flusher, no deletes: block {bj} was completely written (last write #{last_j}) before block {bi} was started (first write #{first_i}), yet block {bi} was reclaimed first; reclaim order with write spans {:?}", clean_order),
                    ));
                    break 'outer;
                }
            }
        }
    }
}

fn short(k: &WriteKind) -> &'static str {
    match k {
        WriteKind::BlobIndex(_) => "index",
        WriteKind::Data(_) => "data",
        WriteKind::Clean => "clean",
        WriteKind::Tombstones(_) => "tombstone",
        WriteKind::Unknown => "data?",
    }
}

pub fn exec_c09(case: &RCase) -> CaseReport {
    let cfg = cfg_of(case);
    let mut sim = HybSim::new(cfg.clone());
    let mut model: BTreeMap<u64, Option<(u64, usize)>> = BTreeMap::new();
    let mut failures: Vec<Failure> = vec![];
    let mut flags = RFlags::default();
    let mut next_fresh = 100u64;
    let mut bytes_written = 0usize;
    let device = cfg.blocks * cfg.block_size;
    let reinsert_keys: BTreeSet<u64> = effective_reinsert(case).iter().map(|k| *k as u64).collect();
    // versions of reinsertion keys that were flushed (acknowledged by a drain + wait) and never deleted since
    let mut flushed_r: BTreeMap<u64, u64> = BTreeMap::new();
    let len_of = |pages: u8| (pages as usize).clamp(1, 3) * PAGE - ENTRY_OVERHEAD - 11;
    // page-aligned size of one copy of the reinsertion set
    let r_vol: usize = if big_reinsert_key(case).is_some() { cfg.block_size - cfg.blob_index_size } else { reinsert_keys.len() * PAGE };

    let mut verify = |sim: &mut HybSim, model: &BTreeMap<u64, Option<(u64, usize)>>, flushed_r: &mut BTreeMap<u64, u64>, failures: &mut Vec<Failure>, ctx: &str, submitted: usize| {
        sim.raw_evict_all();
        sim.raw_settle();
        for (k, cur) in model {
            let out = match sim.raw_get(*k) {
                Ok(o) => o,
                Err(_) => {
                    failures.push(Failure::new("lookup-stalls", format!("{ctx}: get({k}) never resolves although all device io completes")));
                    continue;
                }
            };
            sim.raw_evict_all();
            sim.raw_settle();
            match (&out, cur) {
                (LookupOut::Miss, _) => {
                    let (sb, sc) = sim.shed_counters();
                    // a reinsertion may be shed when the flush buffer is full - which cannot have happened if
                    // everything ever submitted to the flushers (all inserts plus one copy of the reinsertion set per
                    // reclaimed block) is less than one flush buffer
                    let cleans = sim
                        .full_log()
                        .iter()
                        .filter(|(_, r)| r.kind == IoKind::Write && r.offset == 0 && r.len == PAGE && r.data.as_ref().map(|d| d.iter().all(|x| *x == 0)).unwrap_or(false))
                        .count();
                    let overflow_impossible = submitted + (cleans + 2) * r_vol <= cfg.buffer_pool_size / cfg.flushers;
                    if let (Some(v), Some((cv, _)), true) = (flushed_r.get(k), cur, (sb == 0 || overflow_impossible) && sc == 0) {
                        if v == cv {
                            failures.push(Failure::new(
                                "reinsertion-entry-lost",
                                format!("{ctx}: key {k} is selected by the reinsertion filter and version {v} was flushed, but it misses after its block was reclaimed"),
                            ));
                        }
                    }
                }
                (LookupOut::Hit { decoded: Decoded::Valid { key, version }, .. }, Some((cv, _))) if key == k && version == cv => {}
                (other, cur) => failures.push(Failure::new(
                    match other {
                        LookupOut::Hit { decoded: Decoded::Valid { key, version }, .. }
                            if key == k && cur.map(|c| versions_in_one_multi_block_batch(sim, cfg.blob_index_size, *k, *version, c.0)).unwrap_or(false) =>
                        {
                            "stale-entry-after-reuse+both-versions-in-one-multi-block-batch"
                        }
                        LookupOut::Hit { decoded: Decoded::Valid { key, .. }, .. } if key == k => "stale-entry-after-reuse",
                        LookupOut::Hit { .. } => "damaged-or-foreign-entry-after-reuse",
                        _ => "lookup-error-after-reuse",
                    },
                    format!("{ctx}: key {k} (current version {:?}) loads as {other:?}: an entry must be intact or absent", cur.map(|c| c.0)),
                )),
            }
        }
        // everything in the model is flushed now
        for (k, cur) in model {
            if reinsert_keys.contains(k) {
                match cur {
                    Some((v, _)) => {
                        flushed_r.insert(*k, *v);
                    }
                    None => {
                        flushed_r.remove(k);
                    }
                }
            }
        }
    };

    for (i, op) in case.ops.iter().enumerate() {
        if !failures.is_empty() {
            break;
        }
        match op {
            ROp::Insert { k, pages } => {
                // reinsertion keys: one page (see effective_reinsert)
                let pages = if reinsert_keys.contains(&(*k as u64)) { &1u8 } else { pages };
                let len = if big_reinsert_key(case) == Some(*k as u64) {
                    // exactly the per-entry maximum: the aligned entry is as large as the entry space of a block
                    (cfg.block_size - cfg.blob_index_size) - ENTRY_OVERHEAD - 11
                } else {
                    len_of(*pages)
                };
                let v = sim.raw_insert(*k as u64, len);
                model.insert(*k as u64, Some((v, len)));
                bytes_written += (len + ENTRY_OVERHEAD).div_ceil(PAGE) * PAGE;
                sim.raw_settle();
            }
            ROp::Burst { n, pages } => {
                for _ in 0..*n {
                    let k = next_fresh;
                    next_fresh += 1;
                    let len = len_of(*pages);
                    let v = sim.raw_insert(k, len);
                    // fresh keys are not tracked individually (they only create pressure); remember a few
                    if k % 7 == 0 {
                        model.insert(k, Some((v, len)));
                    }
                    bytes_written += (*pages as usize).clamp(1, 3) * PAGE;
                }
                sim.raw_settle();
            }
            ROp::Delete { k } => {
                sim.raw_remove(*k as u64);
                model.insert(*k as u64, None);
                flushed_r.remove(&(*k as u64));
                sim.raw_settle();
            }
            ROp::CompleteIo { i: idx } => {
                let n = sim.pending_len();
                if n > 0 {
                    sim.raw_complete_io(midx(*idx, n));
                }
            }
            ROp::DrainVerify => {
                sim.raw_drain();
                match sim.raw_wait() {
                    Ok(()) => verify(&mut sim, &model, &mut flushed_r, &mut failures, &format!("after drain at op {i}"), bytes_written),
                    Err(_) => failures.push(Failure::new("wait-stalls", format!("op {i}: wait() never resolves although every pending device io has been completed (no writer can obtain a clean block)"))),
                }
            }
            ROp::WaitPump { order } => {
                flags.waits += 1;
                let t = sim.raw_wait_issue();
                sim.raw_settle();
                let mut oi = 0;
                let mut guard = 0;
                loop {
                    if sim.raw_task_done(t) {
                        break;
                    }
                    let n = sim.pending_len();
                    if n == 0 {
                        sim.raw_settle();
                        if sim.raw_task_done(t) {
                            break;
                        }
                        failures.push(Failure::new(
                            "wait-stalls",
                            format!("op {i}: wait() never resolves: no device io is pending, the runtime is quiescent, the future is still pending"),
                        ));
                        break;
                    }
                    let pick = order.get(oi).copied().unwrap_or(0);
                    oi += 1;
                    sim.raw_complete_io(midx(pick, n));
                    guard += 1;
                    if guard > 20_000 {
                        failures.push(Failure::new("wait-stalls", format!("op {i}: wait() did not resolve after 20000 io completions")));
                        break;
                    }
                }
            }
        }
    }
    if failures.is_empty() {
        sim.raw_drain();
        match sim.raw_wait() {
            Ok(()) => verify(&mut sim, &model, &mut flushed_r, &mut failures, "final", bytes_written),
            Err(_) => failures.push(Failure::new("wait-stalls", "final: wait() never resolves although every pending device io has been completed".to_string())),
        }
    }
    flags.wraps = bytes_written / device.max(1);
    let log: Vec<LogRec> = sim.full_log().into_iter().map(|(_, r)| r).collect();
    let (sb, sc) = sim.shed_counters();
    let _ = sim.finish();
    if failures.is_empty() {
        judge_log(case, &log, &mut failures, &mut flags);
    } else {
        let mut dummy = vec![];
        judge_log(case, &log, &mut dummy, &mut flags);
    }
    // reclaim reads concurrent with flusher writes: a read issued while a write is in flight
    let any_reclaim_read_during_write = {
        let mut found = false;
        for (i, r) in log.iter().enumerate() {
            if r.kind == IoKind::Read && r.len == PAGE {
                if log[..i].iter().rev().take(32).any(|w| w.kind == IoKind::Write && w.completed_clock.map(|c| c > r.issued_clock).unwrap_or(true)) {
                    found = true;
                    break;
                }
            }
        }
        found
    };
    // a shed write is turned into a miss (the older copy is invalidated), so intact-or-absent still applies; only the
    // reinsertion clause is skipped once a shedding counter fired
    let discarded = false;
    let mut classes: Vec<&'static str> = vec![];
    if sb > 0 || sc > 0 {
        classes.push("shedding-limit-fired");
    }
    if flags.wraps >= 2 {
        classes.push("2+-device-capacities-written");
    }
    if flags.cleans > 0 {
        classes.push("blocks-reclaimed");
    }
    if any_reclaim_read_during_write {
        classes.push("reclaim-read-while-flusher-write-in-flight");
    }
    if !case.reinsert.is_empty() {
        classes.push("reinsertion-filter-admits-some");
    }
    if case.flushers > 1 {
        classes.push("several-flushers");
    }
    if case.reclaimers > 1 {
        classes.push("two-reclaimers");
    }
    if flags.waits > 0 {
        classes.push("wait-under-generated-completion-order");
    }
    let nontrivial = flags.wraps >= 2 && flags.cleans > 0 && any_reclaim_read_during_write;
    let mut rep = crate::hybchecks::split_known("C09", failures, nontrivial, classes, discarded);
    if discarded {
        rep.failure = None;
    }
    rep
}

pub fn check_c09(tier: Tier, seed: u64) -> i32 {
    let mut check = Check::new("C09", "exploration", tier, seed);
    check.rule = "sustained workloads (inserts of 1-3 pages over 16 tracked keys, bursts of fresh keys, overwrites, deletes) of several device capacities on devices of 4-12 blocks x 16-64 KiB with flushers 1-3, reclaimers 1-2 and clean-block thresholds inside the engine's no-warning domain, reinsertion filter none / some keys, default or FIFO-only pickers; io is held and completed in a generated order that includes the reclaimer's reads and clean writes. From the ordered io log: no two in-flight writes overlap in a block, data ranges of one block epoch are pairwise disjoint and index rewrites never touch entry data, a block is never cleaned while a write to it is in flight nor written while its clean write is in flight. At quiescent points every key loads as its current version or misses (intact or absent). wait() issued at generated points resolves under every generated completion order (no pending io + quiescent runtime + pending future = stall). Keys admitted by the reinsertion filter whose latest version was flushed still hit after their block was reclaimed. Non-trivial = at least 2 device capacities written, blocks reclaimed, and a reclaim read issued while a flusher write was in flight.".into();
    check.assumptions = vec![
        "buffer and submit-queue limits are configured so that the documented shedding cannot trigger; cases where a shedding counter fired are discarded and counted".into(),
        "single OS thread: interleavings at await points and io completion orders are explored, not data races".into(),
    ];
    let cases = tier.pick(60_000, 1_500_000);
    check.max_shrink_iters = 400;
    check.run_random("random", cases, rcase, exec_c09);
    check.run_random("reinsert-focus", cases / 4, rcase_reinsert_focus, exec_c09);
    check.finish()
}
