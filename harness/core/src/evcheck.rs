//! C14: victims are chosen as the configured eviction algorithm prescribes — differential test of a one-shard
//! `Cache` against the set-valued reference models in evmodel.rs.

use proptest::prelude::*;
use serde_json::json;

use crate::{
    common::{CaseReport, Check, Failure, Tier},
    evmodel::{Branches, RefCache},
    hasher::HashSpec,
    memchecks::MemCase,
    memsim::{Algo, MemCfg, MemOp, MemSim, Reason, Ret, Step},
};

const MAX_CANDS: usize = 64;

thread_local! {
    /// set when a candidate set had to be cut: from then on "no candidate explains the observation" proves nothing
    static TRUNCATED: std::cell::Cell<bool> = const { std::cell::Cell::new(false) };
}

fn same_state(a: &RefCache, b: &RefCache) -> bool {
    a.cap == b.cap && a.usage == b.usage && a.resident == b.resident && a.st == b.st && a.recs == b.recs
}

fn dedupe(cands: Vec<RefCache>) -> Vec<RefCache> {
    let mut out: Vec<RefCache> = vec![];
    for c in cands {
        if !out.iter().any(|o| same_state(o, &c)) {
            out.push(c);
        }
        if out.len() >= MAX_CANDS {
            TRUNCATED.with(|t| t.set(true));
            break;
        }
    }
    out
}

fn observed_victims(st: &Step) -> Vec<u64> {
    st.events.iter().filter(|e| e.reason == Reason::Evict).map(|e| e.key).collect()
}

pub struct C14Outcome {
    pub failure: Option<Failure>,
    pub branches: Branches,
    pub evictions: usize,
    pub max_cands: usize,
}

pub fn judge_c14(case: &MemCase) -> C14Outcome {
    let cfg = &case.cfg;
    assert_eq!(cfg.shards, 1, "C14 is a single-shard property");
    let trace = MemSim::run(cfg.clone(), None, &case.ops);
    let mut cands = vec![RefCache::new(&cfg.algo, cfg.capacity)];
    let mut evictions = 0usize;
    let mut max_cands = 1usize;
    let algo = cfg.algo.name();

    let fail = |idx: usize, what: &str, sig: &str, cands: &[RefCache]| -> C14Outcome {
        C14Outcome {
            failure: Some(Failure::new(format!("{algo}:{sig}"), format!("step {idx}: {what}"))),
            branches: cands.first().map(|c| c.br.clone()).unwrap_or_default(),
            evictions: 0,
            max_cands: 0,
        }
    };

    let mut all_steps: Vec<(Option<&MemOp>, &Step)> = case.ops.iter().map(Some).zip(trace.steps.iter()).collect();
    for st in &trace.final_drops {
        all_steps.push((None, st));
    }
    for st in &trace.final_inserts {
        all_steps.push((None, st));
    }
    let keys_of: std::collections::HashMap<u64, (u64, usize)> =
        trace.inserted.iter().map(|(id, k, w, _)| (*id, (*k, *w))).collect();

    for (idx, (op, st)) in all_steps.into_iter().enumerate() {
        let obs = observed_victims(st);
        evictions += obs.len();
        // any non-Evict, non-expected event kinds are C13's business; here only victims and residency matter
        let prev = cands.clone();
        let mut next: Vec<RefCache> = vec![];
        let mut predicted: Vec<Vec<u64>> = vec![];
        match (op, &st.ret) {
            (Some(MemOp::Insert { k, w, low, admit: true, hold }), Ret::Inserted { id }) => {
                for c in cands {
                    for (n, v) in c.insert(*k as u64, cfg.hash.hash_of(*k as u64), *w as usize, *low, *id, *hold) {
                        predicted.push(v.clone());
                        if v == obs {
                            next.push(n);
                        }
                    }
                }
            }
            (None, Ret::Inserted { id }) => {
                let (k, w) = keys_of[id];
                for c in cands {
                    for (n, v) in c.insert(k, cfg.hash.hash_of(k), w, false, *id, false) {
                        predicted.push(v.clone());
                        if v == obs {
                            next.push(n);
                        }
                    }
                }
            }
            (Some(MemOp::Get { k }), Ret::Got(got)) => {
                for mut c in cands {
                    let m = c.lookup(*k as u64, true);
                    predicted.push(vec![]);
                    if m == *got && obs.is_empty() {
                        next.push(c);
                    }
                }
            }
            (Some(MemOp::Touch { k }), Ret::Bool(b)) => {
                for mut c in cands {
                    let m = c.lookup(*k as u64, false);
                    predicted.push(vec![]);
                    if m.is_some() == *b && obs.is_empty() {
                        next.push(c);
                    }
                }
            }
            (Some(MemOp::Contains { .. }), _) => {
                next = cands;
            }
            (Some(MemOp::CloneHandle { .. }), Ret::Cloned(idopt)) => {
                for mut c in cands {
                    if let Some(id) = idopt {
                        c.clone_handle(*id);
                    }
                    next.push(c);
                }
            }
            (Some(MemOp::DropHandle { .. }), Ret::Dropped(idopt)) | (None, Ret::Dropped(idopt)) => {
                for mut c in cands {
                    if let Some(id) = idopt {
                        c.drop_handle(*id);
                    }
                    predicted.push(vec![]);
                    if obs.is_empty() {
                        next.push(c);
                    }
                }
            }
            (Some(MemOp::Remove { k, hold }), Ret::Removed(idopt)) => {
                for c in cands {
                    for (n, got) in c.remove(*k as u64, *hold) {
                        predicted.push(vec![]);
                        if got == *idopt && obs.is_empty() {
                            next.push(n);
                        }
                    }
                }
            }
            (Some(MemOp::Resize { c: newcap }), Ret::ResizeOk(true)) => {
                for c in cands {
                    for (n, v) in c.resize(*newcap as usize) {
                        predicted.push(v.clone());
                        if v == obs {
                            next.push(n);
                        }
                    }
                }
            }
            (Some(MemOp::EvictAll), _) | (Some(MemOp::Flush), _) => {
                for c in cands {
                    for (n, v) in c.evict_all() {
                        predicted.push(v.clone());
                        if v == obs {
                            next.push(n);
                        }
                    }
                }
            }
            (o, r) => {
                return fail(idx, &format!("harness: unsupported (op, ret) in C14: ({o:?}, {r:?})"), "harness-trace-shape", &prev);
            }
        }
        // residency must agree as well
        let next: Vec<RefCache> = next
            .into_iter()
            .filter(|c| c.resident_mask(cfg.universe) == st.contains)
            .collect();
        if next.is_empty() {
            predicted.sort();
            predicted.dedup();
            let opname = op.map(|o| format!("{o:?}")).unwrap_or_else(|| "epilogue".into());
            let sig = if obs.len() > predicted.first().map(|p| p.len()).unwrap_or(0) {
                "extra-victims"
            } else if obs.len() < predicted.first().map(|p| p.len()).unwrap_or(0) {
                "missing-victims"
            } else {
                "wrong-victim"
            };
            return fail(
                idx,
                &format!(
                    "{algo} during {opname}: evicted keys {obs:?} (resident set {:#b}); the documented algorithm permits victim sequences {predicted:?} with resident sets {:?}",
                    st.contains,
                    prev.iter().map(|c| format!("{:#b}", c.resident_mask(cfg.universe))).collect::<Vec<_>>()
                ),
                sig,
                &prev,
            );
        }
        cands = dedupe(next);
        max_cands = max_cands.max(cands.len());
    }
    C14Outcome {
        failure: None,
        branches: cands[0].br.clone(),
        evictions,
        max_cands,
    }
}

pub fn exec_c14(case: &MemCase) -> CaseReport {
    TRUNCATED.with(|t| t.set(false));
    let mut out = judge_c14(case);
    // The reference model is set-valued; when a history forks more often than the candidate set can hold, candidates
    // were dropped and a later disagreement may be the dropped candidate's: the case is outside what this model decides
    let truncated = TRUNCATED.with(|t| t.get());
    if truncated && out.failure.is_some() {
        out.failure = None;
    }
    let b = &out.branches;
    let mut classes: Vec<&'static str> = vec![case.cfg.algo.name()];
    macro_rules! cls {
        ($cond:expr, $name:expr) => {
            if $cond {
                classes.push($name);
            }
        };
    }
    cls!(b.lru_pool_overflow > 0, "lru-pool-overflow");
    cls!(b.lru_pinned_skipped > 0, "lru-pinned-skipped");
    cls!(b.lru_resize_with_pinned > 0, "lru-resize-with-pinned");
    cls!(b.lru_low_first > 0, "lru-low-priority-first");
    cls!(b.sieve_hand_wrap > 0, "sieve-hand-wrap");
    cls!(b.sieve_remove_at_hand > 0, "sieve-remove-at-hand");
    cls!(b.sieve_visited_cleared > 0, "sieve-visited-cleared");
    cls!(b.s3_promote > 0, "s3-small-to-main");
    cls!(b.s3_ghost_hit > 0, "s3-ghost-hit");
    cls!(b.s3_ghost_evict > 0, "s3-ghost-evict");
    cls!(b.s3_freq_cap > 0, "s3-freq-at-cap");
    cls!(b.s3_forced_small > 0, "s3-forced-small-pop");
    cls!(b.s3_main_reinsert > 0, "s3-main-reinsert");
    cls!(b.lfu_promote > 0, "lfu-probation-to-protected");
    cls!(b.lfu_protected_overflow > 0, "lfu-protected-overflow");
    cls!(b.lfu_decided_by_freq > 0, "lfu-decided-by-frequency");
    cls!(b.lfu_tie > 0, "lfu-frequency-tie(open)");
    cls!(b.lfu_halve > 0, "lfu-sketch-halved");
    cls!(b.open_steps > 0, "open-step-forked");
    cls!(out.max_cands > 1, "multiple-candidates");
    cls!(truncated, "candidate-set-truncated(out-of-model)");
    let nontrivial = out.evictions > 0 && classes.len() > 1;
    CaseReport {
        nontrivial,
        classes,
        discarded: truncated,
        failure: out.failure,
        tolerated: vec![],
    }
}

pub fn c14_algos() -> Vec<Algo> {
    let mut v = vec![Algo::Fifo, Algo::Sieve];
    for r in [0u8, 10, 50, 90, 100] {
        v.push(Algo::Lru { ratio_pct: r });
    }
    for s in [10u8, 25, 50] {
        for g in [0u8, 50, 100] {
            for t in 1u8..=3 {
                v.push(Algo::S3Fifo { small_pct: s, ghost_pct: g, thr: t });
            }
        }
    }
    for (w, p) in [(10u8, 80u8), (30, 50), (50, 40), (20, 20)] {
        for eps in [1u16, 50, 200] {
            v.push(Algo::Lfu { window_pct: w, protected_pct: p, eps_milli: eps });
        }
    }
    v
}

fn c14_op(universe: u8, maxw: u8, cap: u8) -> impl Strategy<Value = MemOp> {
    let k = 0..universe;
    prop_oneof![
        10 => (k.clone(), 1..=maxw, prop::bool::weighted(0.25), prop::bool::weighted(0.15)).prop_map(|(k, w, low, hold)| MemOp::Insert { k, w, low, admit: true, hold }),
        1 => (k.clone(), prop::bool::weighted(0.25)).prop_map(|(k, low)| MemOp::Insert { k, w: 0, low, admit: true, hold: false }),
        6 => k.clone().prop_map(|k| MemOp::Get { k }),
        4 => k.clone().prop_map(|k| MemOp::Touch { k }),
        5 => any::<u16>().prop_map(|h| MemOp::DropHandle { h }),
        1 => any::<u16>().prop_map(|h| MemOp::CloneHandle { h }),
        2 => (k.clone(), prop::bool::weighted(0.2)).prop_map(|(k, hold)| MemOp::Remove { k, hold }),
        1 => (1..=cap.saturating_add(2)).prop_map(|c| MemOp::Resize { c }),
        1 => Just(MemOp::EvictAll),
    ]
}

pub fn c14_case(max_len: usize) -> impl Strategy<Value = MemCase> {
    let algos = c14_algos();
    // pick the algorithm family uniformly, then one of its configurations
    let families: Vec<Vec<Algo>> = ["fifo", "sieve", "lru", "s3fifo", "lfu"]
        .iter()
        .map(|f| algos.iter().filter(|a| a.name() == *f).cloned().collect())
        .collect();
    (0..families.len(), any::<u16>(), 2usize..=12, 4u8..=10, 1..=max_len).prop_flat_map(move |(fi, ci, capacity, universe, len)| {
        let fam = &families[fi];
        let cfg = MemCfg {
            algo: fam[crate::common::midx(ci, fam.len())].clone(),
            capacity,
            shards: 1,
            hash: HashSpec::Identity,
            universe,
            pipe: false,
        };
        let maxw = 3u8.min(capacity as u8);
        (Just(cfg), prop::collection::vec(c14_op(universe, maxw, capacity as u8), 1..=len)).prop_map(|(cfg, ops)| MemCase { cfg, ops })
    })
}

fn c14_alphabet(algo: &Algo, cap: usize, with_resize: bool) -> Vec<MemOp> {
    let mut a = vec![];
    for k in 0..3u8 {
        for w in [1u8, 2] {
            a.push(MemOp::Insert { k, w, low: false, admit: true, hold: false });
        }
    }
    if algo.is_lru() {
        for k in 0..3u8 {
            a.push(MemOp::Insert { k, w: 1, low: true, admit: true, hold: false });
        }
    }
    for k in 0..3u8 {
        a.push(MemOp::Get { k });
    }
    for k in 0..3u8 {
        a.push(MemOp::Touch { k });
    }
    a.push(MemOp::DropHandle { h: 0 });
    for k in 0..3u8 {
        a.push(MemOp::Remove { k, hold: false });
    }
    if with_resize {
        a.push(MemOp::Resize { c: 1 });
        a.push(MemOp::Resize { c: cap as u8 + 1 });
    }
    a
}

struct Space {
    cfgs: Vec<MemCfg>,
    alphabets: Vec<Vec<MemOp>>,
    sizes: Vec<u64>,
}

impl Space {
    fn new(cfgs: Vec<MemCfg>, depth: usize, with_resize: bool) -> Self {
        let alphabets: Vec<Vec<MemOp>> = cfgs.iter().map(|c| c14_alphabet(&c.algo, c.capacity, with_resize)).collect();
        let sizes = alphabets
            .iter()
            .map(|a| (1..=depth as u32).map(|l| (a.len() as u64).pow(l)).sum())
            .collect();
        Self { cfgs, alphabets, sizes }
    }
    fn total(&self) -> u64 {
        self.sizes.iter().sum()
    }
    fn make(&self, mut i: u64) -> MemCase {
        let mut c = 0;
        while i >= self.sizes[c] {
            i -= self.sizes[c];
            c += 1;
        }
        let a = &self.alphabets[c];
        let n = a.len() as u64;
        let mut len = 1u32;
        while i >= n.pow(len) {
            i -= n.pow(len);
            len += 1;
        }
        let mut ops = vec![];
        for _ in 0..len {
            ops.push(a[(i % n) as usize].clone());
            i /= n;
        }
        MemCase {
            cfg: self.cfgs[c].clone(),
            ops,
        }
    }
}

pub fn check_c14(tier: Tier, seed: u64) -> i32 {
    let mut check = Check::new("C14", "exploration", tier, seed);
    check.rule = "one-shard Cache (identity hasher) vs five reference models written from the documented rules (FIFO; LRU low/high/pinned lists with pool overflow; SIEVE hand + visited bit; S3-FIFO small/main/ghost, capped frequency, threshold; W-TinyLFU window/probation/protected + the same third-party count-min sketch): compared observable = ordered sequence of (Evict,key) notifications per operation and the resident set after every operation. Set-valued where the documentation is silent (SIEVE removal at the hand, S3-FIFO small-queue share at equality, ghost membership of duplicate hashes, TinyLFU frequency ties). Bounded-exhaustive over a ~19-25-op alphabet (3 keys, weights {1,2}, hints, get/hold/release, touch, remove, resize) + proptest random histories up to 400 ops over 50 configurations. Non-trivial = at least one eviction and at least one non-default model branch (pool overflow, pinned skipped, hand wrap, ghost hit, promotion, frequency decision, sketch halving ...); distinct by fingerprint.".into();
    check.assumptions = vec![
        "single shard, single thread".into(),
        "count-min sketch hashing (datasketches crate) is shared with foyer and trusted".into(),
        "clear() is not part of the C14 alphabet (it is covered by C05/C13)".into(),
    ];
    let depth = tier.pick(3, 4);
    let base: Vec<Algo> = vec![
        Algo::Fifo,
        Algo::Sieve,
        Algo::Lru { ratio_pct: 50 },
        Algo::Lru { ratio_pct: 90 },
        Algo::S3Fifo { small_pct: 25, ghost_pct: 100, thr: 1 },
        Algo::S3Fifo { small_pct: 50, ghost_pct: 50, thr: 2 },
        Algo::Lfu { window_pct: 30, protected_pct: 50, eps_milli: 1 },
        Algo::Lfu { window_pct: 50, protected_pct: 40, eps_milli: 200 },
    ];
    let caps: Vec<usize> = tier.pick(vec![2, 4], vec![2, 3, 4, 6]);
    let mut cfgs = vec![];
    for algo in &base {
        for &capacity in &caps {
            cfgs.push(MemCfg {
                algo: algo.clone(),
                capacity,
                shards: 1,
                hash: HashSpec::Identity,
                universe: 3,
                pipe: false,
            });
        }
    }
    let space = Space::new(cfgs.clone(), depth, false);
    check.set_extra("exhaustive_sequences", json!(space.total()));
    check.set_extra("exhaustive_depth", json!(depth));
    check.run_exhaustive("exhaustive", space.total(), |i| space.make(i), exec_c14);
    // deeper for capacity 3
    let deep_cfgs: Vec<MemCfg> = base
        .iter()
        .map(|algo| MemCfg {
            algo: algo.clone(),
            capacity: 3,
            shards: 1,
            hash: HashSpec::Identity,
            universe: 3,
            pipe: false,
        })
        .collect();
    let deep = Space::new(deep_cfgs.clone(), depth + 1, false);
    check.add_extra_count("exhaustive_sequences", deep.total());
    check.run_exhaustive("exhaustive-deep", deep.total(), |i| deep.make(i), exec_c14);
    let rs = Space::new(deep_cfgs, depth, true);
    check.add_extra_count("exhaustive_sequences", rs.total());
    check.run_exhaustive("exhaustive-resize", rs.total(), |i| rs.make(i), exec_c14);
    let cases = tier.pick(8000, 300_000);
    let len = tier.pick(250, 400);
    check.run_random("random", cases, || c14_case(len), exec_c14);
    check.finish()
}
