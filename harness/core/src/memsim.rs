//! memsim: single-threaded interpreter for `foyer::Cache` histories (all five algorithms).
//!
//! The interpreter executes a generated `Vec<MemOp>` against the real cache and records a *trace*: for every step
//! the leave-events the listener saw, what was offered to the pipe, destructor runs, lock-probe results, the op's
//! return value, `contains` over the key universe, `usage()`, `entries()` and the state of every live handle.
//! Oracles (memoracle.rs) judge the trace against reference models; the interpreter itself asserts nothing.

use std::{
    hash::{Hash, Hasher},
    sync::{
        Arc,
        atomic::{AtomicBool, AtomicU64, Ordering},
    },
};

use foyer::{
    Cache, CacheBuilder, CacheEntry, CacheProperties, Event, EventListener, EvictionConfig, FifoConfig, Hint, LfuConfig,
    LruConfig, S3FifoConfig, SieveConfig,
};
use foyer_memory::{Piece, Pipe};
use futures_util::FutureExt;
use parking_lot::Mutex;
use serde::{Deserialize, Serialize};

use crate::hasher::{HashSpec, SpecHasher};

#[derive(Clone, Debug, Serialize, Deserialize, PartialEq, Eq)]
pub enum Algo {
    Fifo,
    /// high priority pool ratio in percent
    Lru { ratio_pct: u8 },
    Lfu {
        window_pct: u8,
        protected_pct: u8,
        /// count-min sketch eps in 1/1000 (foyer default 0.001 => 1)
        #[serde(default = "default_eps_milli")]
        eps_milli: u16,
    },
    S3Fifo { small_pct: u8, ghost_pct: u8, thr: u8 },
    Sieve,
}

fn default_eps_milli() -> u16 {
    1
}

impl Algo {
    pub fn name(&self) -> &'static str {
        match self {
            Algo::Fifo => "fifo",
            Algo::Lru { .. } => "lru",
            Algo::Lfu { .. } => "lfu",
            Algo::S3Fifo { .. } => "s3fifo",
            Algo::Sieve => "sieve",
        }
    }

    pub fn is_lru(&self) -> bool {
        matches!(self, Algo::Lru { .. })
    }

    pub fn eviction_config(&self) -> EvictionConfig {
        match self {
            Algo::Fifo => FifoConfig::default().into(),
            Algo::Lru { ratio_pct } => LruConfig {
                high_priority_pool_ratio: *ratio_pct as f64 / 100.0,
            }
            .into(),
            Algo::Lfu {
                window_pct,
                protected_pct,
                eps_milli,
            } => LfuConfig {
                window_capacity_ratio: *window_pct as f64 / 100.0,
                protected_capacity_ratio: *protected_pct as f64 / 100.0,
                cmsketch_eps: *eps_milli as f64 / 1000.0,
                cmsketch_confidence: 0.9,
            }
            .into(),
            Algo::S3Fifo {
                small_pct,
                ghost_pct,
                thr,
            } => S3FifoConfig {
                small_queue_capacity_ratio: *small_pct as f64 / 100.0,
                ghost_queue_capacity_ratio: *ghost_pct as f64 / 100.0,
                small_to_main_freq_threshold: *thr,
            }
            .into(),
            Algo::Sieve => SieveConfig.into(),
        }
    }

    pub fn defaults() -> Vec<Algo> {
        vec![
            Algo::Fifo,
            Algo::Lru { ratio_pct: 90 },
            Algo::Lfu {
                window_pct: 10,
                protected_pct: 80,
                eps_milli: 1,
            },
            Algo::S3Fifo {
                small_pct: 10,
                ghost_pct: 100,
                thr: 1,
            },
            Algo::Sieve,
        ]
    }
}

#[derive(Clone, Debug, Serialize, Deserialize, PartialEq, Eq)]
pub struct MemCfg {
    pub algo: Algo,
    pub capacity: usize,
    pub shards: usize,
    pub hash: HashSpec,
    /// keys are 0..universe
    pub universe: u8,
    /// install a recording pipe
    pub pipe: bool,
}

impl MemCfg {
    pub fn shard_of(&self, k: u64) -> usize {
        (self.hash.hash_of(k) as usize) % self.shards
    }
    pub fn shard_capacity(&self, s: usize) -> usize {
        self.capacity / self.shards + usize::from(s < self.capacity % self.shards)
    }
}

/// Re-entrant operation performed from inside a callback (C16).
#[derive(Clone, Copy, Debug, Serialize, Deserialize, PartialEq, Eq)]
pub enum ReOp {
    None,
    Get(u8),
    Contains(u8),
    Insert(u8),
    Remove(u8),
}

#[derive(Clone, Debug, Serialize, Deserialize, PartialEq, Eq)]
pub struct ReentrantPlan {
    pub listener: ReOp,
    pub value_drop: ReOp,
    pub key_drop: ReOp,
    pub weighter: ReOp,
    pub filter: ReOp,
}

#[derive(Clone, Debug, Serialize, Deserialize, PartialEq, Eq)]
pub enum MemOp {
    Insert { k: u8, w: u8, low: bool, admit: bool, hold: bool },
    Get { k: u8 },
    Touch { k: u8 },
    Contains { k: u8 },
    CloneHandle { h: u16 },
    DropHandle { h: u16 },
    Remove { k: u8, hold: bool },
    Clear,
    Resize { c: u8 },
    EvictAll,
    Flush,
    /// get_or_fetch whose origin future is immediately ready (C16 only)
    FetchReady { k: u8, w: u8, hold: bool },
    /// get_or_fetch whose origin future never resolves; the caller is kept until the end (C16 only)
    FetchPending { k: u8 },
    /// get_or_fetch whose origin future fails at once (C16 only)
    FetchFail { k: u8 },
}

#[derive(Clone, Copy, Debug, PartialEq, Eq, Serialize)]
pub enum Reason {
    Evict,
    Replace,
    Remove,
    Clear,
}

impl From<Event> for Reason {
    fn from(e: Event) -> Self {
        match e {
            Event::Evict => Reason::Evict,
            Event::Replace => Reason::Replace,
            Event::Remove => Reason::Remove,
            Event::Clear => Reason::Clear,
        }
    }
}

#[derive(Clone, Debug, Serialize)]
pub struct Ev {
    pub reason: Reason,
    pub key: u64,
    pub id: u64,
    pub weight: usize,
    /// contains(key) observed inside the callback (None: not probed because a lock was held / resize in progress)
    pub contains_in_cb: Option<bool>,
    /// number of shard locks held at callback time
    pub locked: usize,
}

#[derive(Clone, Copy, Debug, PartialEq, Eq, Serialize)]
pub enum CbKind {
    Listener,
    ValueDrop,
    KeyDrop,
    Weighter,
    Filter,
}

#[derive(Clone, Debug, Serialize)]
pub struct CbObs {
    pub kind: CbKind,
    pub locked: usize,
    /// re-entrant op performed (only when no lock was held)
    pub reentered: bool,
}

#[derive(Clone, Debug, Serialize, PartialEq, Eq)]
pub enum PipeEv {
    Send(u64),
    Flush(Vec<u64>),
}

#[derive(Clone, Debug, Serialize, PartialEq, Eq)]
pub enum Ret {
    None,
    Inserted { id: u64 },
    Got(Option<u64>),
    Bool(bool),
    Removed(Option<u64>),
    Cloned(Option<u64>),
    Dropped(Option<u64>),
    ResizeOk(bool),
}

#[derive(Clone, Debug, Serialize)]
pub struct HandleObs {
    pub slot: usize,
    pub id: u64,
    pub key: u64,
    pub intact: bool,
    pub outdated: bool,
    pub refs: usize,
}

#[derive(Clone, Debug, Serialize)]
pub struct Step {
    pub events: Vec<Ev>,
    pub piped: Vec<PipeEv>,
    pub callbacks: Vec<CbObs>,
    pub ret: Ret,
    /// bit k set <=> contains(k)
    pub contains: u32,
    pub usage: usize,
    pub entries: usize,
    pub handles: Vec<HandleObs>,
}

#[derive(Clone, Debug, Serialize)]
pub struct Trace {
    pub steps: Vec<Step>,
    /// after the history: drop every handle (one step per dropped handle)
    pub final_drops: Vec<Step>,
    /// then one weight-0 insert of a fresh key per shard (keys universe+shard.. chosen to land in that shard)
    pub final_inserts: Vec<Step>,
    /// then the cache is dropped
    pub final_cache_drop: Step,
    /// ids in insertion order with (key, weight, admitted)
    pub inserted: Vec<(u64, u64, usize, bool)>,
}

pub struct Ctx {
    cache: Mutex<Option<Cache<MKey, MVal, SpecHasher>>>,
    events: Mutex<Vec<Ev>>,
    piped: Mutex<Vec<PipeEv>>,
    callbacks: Mutex<Vec<CbObs>>,
    plan: Option<ReentrantPlan>,
    in_callback: AtomicBool,
    /// re-entrant ops are performed only while this is set (cleared for the final drain so it terminates)
    reenter_enabled: AtomicBool,
    /// re-entrant ops left for the current step (entries parked by re-entrant ops are dropped at the next step, and
    /// their destructors re-enter again: without a budget the number of parked entries doubles every step)
    reenter_budget: std::sync::atomic::AtomicI64,
    in_resize: AtomicBool,
    multi_shard: bool,
    next_id: AtomicU64,
    inserted: Mutex<Vec<(u64, u64, usize, bool)>>,
    /// handles produced by re-entrant gets are parked here and dropped at the end of the step
    parked: Mutex<Vec<CacheEntry<MKey, MVal, SpecHasher>>>,
    observe_callbacks: bool,
}

impl Ctx {
    fn locked(&self) -> usize {
        // try_lock: the callback may run while the harness is in the middle of taking the cache out (final drop)
        match self.cache.try_lock() {
            Some(g) => g.as_ref().map(|c| c.verif_locked_shards()).unwrap_or(0),
            None => 0,
        }
    }

    fn cache(&self) -> Option<Cache<MKey, MVal, SpecHasher>> {
        self.cache.try_lock().and_then(|g| g.as_ref().cloned())
    }

    fn callback(self: &Arc<Self>, kind: CbKind, reop: ReOp) -> usize {
        let locked = self.locked();
        let mut reentered = false;
        if locked == 0
            && reop != ReOp::None
            && self.reenter_enabled.load(Ordering::SeqCst)
            && self.reenter_budget.load(Ordering::SeqCst) > 0
            && !self.in_callback.swap(true, Ordering::SeqCst)
        {
            self.reenter_budget.fetch_sub(1, Ordering::SeqCst);
            if let Some(cache) = self.cache() {
                reentered = true;
                match reop {
                    ReOp::None => {}
                    ReOp::Get(k) => {
                        if let Some(e) = cache.get(&self.key(k as u64)) {
                            self.parked.lock().push(e);
                        }
                    }
                    ReOp::Contains(k) => {
                        let _ = cache.contains(&self.key(k as u64));
                    }
                    ReOp::Insert(k) => {
                        let (key, val) = self.make(k as u64, 1, true);
                        let e = cache.insert(key, val);
                        self.parked.lock().push(e);
                    }
                    ReOp::Remove(k) => {
                        if let Some(e) = cache.remove(&self.key(k as u64)) {
                            self.parked.lock().push(e);
                        }
                    }
                }
            }
            self.in_callback.store(false, Ordering::SeqCst);
        }
        if self.observe_callbacks {
            self.callbacks.lock().push(CbObs { kind, locked, reentered });
        }
        locked
    }

    /// A lookup key owned by the harness (no destructor probe).
    pub fn key(self: &Arc<Self>, k: u64) -> MKey {
        MKey { k, ctx: None }
    }

    /// A key that is handed to the cache (destructor probe armed when a plan is installed).
    fn owned_key(self: &Arc<Self>, k: u64) -> MKey {
        MKey {
            k,
            ctx: if self.plan.is_some() { Some(CtxRef(self.clone())) } else { None },
        }
    }

    pub fn make(self: &Arc<Self>, k: u64, weight: usize, admit: bool) -> (MKey, MVal) {
        let id = self.next_id.fetch_add(1, Ordering::SeqCst);
        self.inserted.lock().push((id, k, weight, admit));
        (
            self.owned_key(k),
            MVal {
                id,
                key: k,
                weight,
                admit,
                fill: fill_of(id, k),
                ctx: if self.plan.is_some() { Some(CtxRef(self.clone())) } else { None },
            },
        )
    }
}

pub fn fill_of(id: u64, k: u64) -> u64 {
    (id.wrapping_mul(0x9E37_79B9_7F4A_7C15) ^ k.rotate_left(17)).wrapping_add(0xDEAD_BEEF)
}

/// Opaque, manually Send+Sync reference to the case context. (Auto-trait inference would otherwise recurse:
/// MKey: Send <- Ctx: Sync <- Cache<MKey, ..>: Send <- MKey: Key.) Ctx only contains mutexes, atomics and a foyer
/// cache, which is Send + Sync by foyer's own contract.
pub struct CtxRef(Arc<Ctx>);
unsafe impl Send for CtxRef {}
unsafe impl Sync for CtxRef {}
impl Clone for CtxRef {
    fn clone(&self) -> Self {
        CtxRef(self.0.clone())
    }
}

pub struct MKey {
    pub k: u64,
    ctx: Option<CtxRef>,
}

impl Clone for MKey {
    fn clone(&self) -> Self {
        Self {
            k: self.k,
            ctx: self.ctx.clone(),
        }
    }
}
impl PartialEq for MKey {
    fn eq(&self, o: &Self) -> bool {
        self.k == o.k
    }
}
impl Eq for MKey {}
impl Hash for MKey {
    fn hash<H: Hasher>(&self, state: &mut H) {
        state.write_u64(self.k)
    }
}
impl std::fmt::Debug for MKey {
    fn fmt(&self, f: &mut std::fmt::Formatter<'_>) -> std::fmt::Result {
        write!(f, "k{}", self.k)
    }
}
impl Drop for MKey {
    fn drop(&mut self) {
        if let Some(CtxRef(ctx)) = self.ctx.take() {
            let reop = ctx.plan.as_ref().map(|p| p.key_drop).unwrap_or(ReOp::None);
            ctx.callback(CbKind::KeyDrop, reop);
        }
    }
}

pub struct MVal {
    pub id: u64,
    pub key: u64,
    pub weight: usize,
    pub admit: bool,
    pub fill: u64,
    ctx: Option<CtxRef>,
}

impl std::fmt::Debug for MVal {
    fn fmt(&self, f: &mut std::fmt::Formatter<'_>) -> std::fmt::Result {
        write!(f, "v#{}(k{},w{})", self.id, self.key, self.weight)
    }
}
impl Drop for MVal {
    fn drop(&mut self) {
        if let Some(CtxRef(ctx)) = self.ctx.take() {
            let reop = ctx.plan.as_ref().map(|p| p.value_drop).unwrap_or(ReOp::None);
            ctx.callback(CbKind::ValueDrop, reop);
        }
    }
}

struct Listener(CtxRef);

impl EventListener for Listener {
    type Key = MKey;
    type Value = MVal;

    fn on_leave(&self, reason: Event, key: &MKey, value: &MVal) {
        let ctx = &self.0.0;
        let locked = ctx.locked();
        let contains_in_cb = if locked == 0 && !(ctx.multi_shard && ctx.in_resize.load(Ordering::SeqCst)) {
            ctx.cache().map(|c| c.contains(key))
        } else {
            None
        };
        ctx.events.lock().push(Ev {
            reason: reason.into(),
            key: key.k,
            id: value.id,
            weight: value.weight,
            contains_in_cb,
            locked,
        });
        let reop = ctx.plan.as_ref().map(|p| p.listener).unwrap_or(ReOp::None);
        if ctx.plan.is_some() {
            ctx.callback(CbKind::Listener, reop);
        }
    }
}

#[derive(Debug)]
struct RecPipe(std::sync::Weak<Ctx>);

impl Pipe for RecPipe {
    type Key = MKey;
    type Value = MVal;
    type Properties = CacheProperties;

    fn is_enabled(&self) -> bool {
        true
    }

    fn send(&self, piece: Piece<MKey, MVal, CacheProperties>) {
        if let Some(ctx) = self.0.upgrade() {
            ctx.piped.lock().push(PipeEv::Send(piece.value().id));
        }
    }

    fn flush(
        &self,
        pieces: Vec<Piece<MKey, MVal, CacheProperties>>,
    ) -> std::pin::Pin<Box<dyn Future<Output = ()> + Send>> {
        if let Some(ctx) = self.0.upgrade() {
            ctx.piped
                .lock()
                .push(PipeEv::Flush(pieces.iter().map(|p| p.value().id).collect()));
        }
        Box::pin(async {})
    }
}

impl std::fmt::Debug for Ctx {
    fn fmt(&self, f: &mut std::fmt::Formatter<'_>) -> std::fmt::Result {
        write!(f, "Ctx")
    }
}

struct Handle {
    entry: CacheEntry<MKey, MVal, SpecHasher>,
    id: u64,
    key: u64,
    weight: usize,
    fill: u64,
}

pub struct MemSim {
    pub cfg: MemCfg,
    ctx: Arc<Ctx>,
    cache: Option<Cache<MKey, MVal, SpecHasher>>,
    handles: Vec<Option<Handle>>,
    rt: Option<tokio::runtime::Runtime>,
    pending: Vec<std::pin::Pin<Box<foyer::GetOrFetch<MKey, MVal, SpecHasher>>>>,
}

impl MemSim {
    pub fn new(cfg: MemCfg, plan: Option<ReentrantPlan>) -> Self {
        let observe = plan.is_some();
        let ctx = Arc::new(Ctx {
            cache: Mutex::new(None),
            events: Mutex::new(vec![]),
            piped: Mutex::new(vec![]),
            callbacks: Mutex::new(vec![]),
            plan,
            in_callback: AtomicBool::new(false),
            reenter_enabled: AtomicBool::new(true),
            reenter_budget: std::sync::atomic::AtomicI64::new(6),
            in_resize: AtomicBool::new(false),
            multi_shard: cfg.shards > 1,
            next_id: AtomicU64::new(1),
            inserted: Mutex::new(vec![]),
            parked: Mutex::new(vec![]),
            observe_callbacks: observe,
        });
        let wctx = ctx.clone();
        let fctx = ctx.clone();
        let has_plan = ctx.plan.is_some();
        let mut builder = CacheBuilder::new(cfg.capacity)
            .with_shards(cfg.shards)
            .with_eviction_config(cfg.algo.eviction_config())
            .with_hash_builder(SpecHasher::new(cfg.hash.clone()))
            .with_weighter(move |_k: &MKey, v: &MVal| {
                if has_plan {
                    let reop = wctx.plan.as_ref().map(|p| p.weighter).unwrap_or(ReOp::None);
                    wctx.callback(CbKind::Weighter, reop);
                }
                v.weight
            })
            .with_filter(move |_k: &MKey, v: &MVal| {
                if has_plan {
                    let reop = fctx.plan.as_ref().map(|p| p.filter).unwrap_or(ReOp::None);
                    fctx.callback(CbKind::Filter, reop);
                }
                v.admit
            });
        builder = builder.with_event_listener(Arc::new(Listener(CtxRef(ctx.clone()))));
        let mut cache: Cache<MKey, MVal, SpecHasher> = builder.build();
        if cfg.pipe {
            cache = cache.with_pipe(Arc::new(RecPipe(Arc::downgrade(&ctx))));
        }
        *ctx.cache.lock() = Some(cache.clone());
        Self {
            cfg,
            ctx,
            cache: Some(cache),
            handles: vec![],
            rt: None,
            pending: vec![],
        }
    }

    fn rt(&mut self) -> &tokio::runtime::Runtime {
        if self.rt.is_none() {
            self.rt = Some(tokio::runtime::Builder::new_current_thread().build().unwrap());
        }
        self.rt.as_ref().unwrap()
    }

    fn cache(&self) -> &Cache<MKey, MVal, SpecHasher> {
        self.cache.as_ref().unwrap()
    }

    fn live_slots(&self) -> Vec<usize> {
        self.handles
            .iter()
            .enumerate()
            .filter(|(_, h)| h.is_some())
            .map(|(i, _)| i)
            .collect()
    }

    fn hold(&mut self, entry: CacheEntry<MKey, MVal, SpecHasher>) {
        let h = Handle {
            id: entry.value().id,
            key: entry.key().k,
            weight: entry.weight(),
            fill: entry.value().fill,
            entry,
        };
        self.handles.push(Some(h));
    }

    fn observe(&mut self, ret: Ret) -> Step {
        // drop handles parked by re-entrant ops (outside any callback)
        let parked = std::mem::take(&mut *self.ctx.parked.lock());
        drop(parked);
        let (contains, usage, entries) = match self.cache.as_ref() {
            Some(cache) => {
                let mut contains = 0u32;
                for k in 0..self.cfg.universe as u64 {
                    if cache.contains(&self.ctx.key(k)) {
                        contains |= 1 << k;
                    }
                }
                (contains, cache.usage(), cache.entries())
            }
            None => (0, 0, 0),
        };
        let handles = self
            .handles
            .iter()
            .enumerate()
            .filter_map(|(slot, h)| h.as_ref().map(|h| (slot, h)))
            .map(|(slot, h)| HandleObs {
                slot,
                id: h.id,
                key: h.key,
                intact: h.entry.key().k == h.key
                    && h.entry.value().id == h.id
                    && h.entry.value().key == h.key
                    && h.entry.value().fill == h.fill
                    && h.entry.value().weight == h.weight
                    && h.entry.weight() == h.weight,
                outdated: h.entry.is_outdated(),
                refs: h.entry.refs(),
            })
            .collect();
        // key objects created by the contains() sweep above run their destructors too; collect after.
        Step {
            events: std::mem::take(&mut *self.ctx.events.lock()),
            piped: std::mem::take(&mut *self.ctx.piped.lock()),
            callbacks: std::mem::take(&mut *self.ctx.callbacks.lock()),
            ret,
            contains,
            usage,
            entries,
            handles,
        }
    }

    pub fn step(&mut self, op: &MemOp) -> Step {
        self.ctx.reenter_budget.store(6, Ordering::SeqCst);
        let ret = match op {
            MemOp::Insert { k, w, low, admit, hold } => {
                let (key, val) = self.ctx.make(*k as u64, *w as usize, *admit);
                let id = val.id;
                let entry = if *low {
                    self.cache()
                        .insert_with_properties(key, val, CacheProperties::default().with_hint(Hint::Low))
                } else {
                    self.cache().insert(key, val)
                };
                if *hold {
                    self.hold(entry);
                } else {
                    drop(entry);
                }
                Ret::Inserted { id }
            }
            MemOp::Get { k } => {
                let e = self.cache().get(&self.ctx.key(*k as u64));
                let id = e.as_ref().map(|e| e.value().id);
                if let Some(e) = e {
                    self.hold(e);
                }
                Ret::Got(id)
            }
            MemOp::Touch { k } => Ret::Bool(self.cache().touch(&self.ctx.key(*k as u64))),
            MemOp::Contains { k } => Ret::Bool(self.cache().contains(&self.ctx.key(*k as u64))),
            MemOp::CloneHandle { h } => {
                let live = self.live_slots();
                if live.is_empty() {
                    Ret::Cloned(None)
                } else {
                    let slot = live[crate::common::midx(*h, live.len())];
                    let src = self.handles[slot].as_ref().unwrap();
                    let e = src.entry.clone();
                    let id = src.id;
                    self.hold(e);
                    Ret::Cloned(Some(id))
                }
            }
            MemOp::DropHandle { h } => {
                let live = self.live_slots();
                if live.is_empty() {
                    Ret::Dropped(None)
                } else {
                    let slot = live[crate::common::midx(*h, live.len())];
                    let hd = self.handles[slot].take().unwrap();
                    let id = hd.id;
                    drop(hd);
                    Ret::Dropped(Some(id))
                }
            }
            MemOp::Remove { k, hold } => {
                let e = self.cache().remove(&self.ctx.key(*k as u64));
                let id = e.as_ref().map(|e| e.value().id);
                if let Some(e) = e {
                    if *hold {
                        self.hold(e);
                    }
                }
                Ret::Removed(id)
            }
            MemOp::Clear => {
                self.cache().clear();
                Ret::None
            }
            MemOp::Resize { c } => {
                self.ctx.in_resize.store(true, Ordering::SeqCst);
                let r = self.cache().resize(*c as usize);
                self.ctx.in_resize.store(false, Ordering::SeqCst);
                if r.is_ok() {
                    self.cfg.capacity = *c as usize;
                }
                Ret::ResizeOk(r.is_ok())
            }
            MemOp::EvictAll => {
                self.cache().evict_all();
                Ret::None
            }
            MemOp::Flush => {
                self.cache()
                    .flush()
                    .now_or_never()
                    .expect("memsim pipe flush is immediately ready");
                Ret::None
            }
            MemOp::FetchReady { k, w, hold } => {
                // the value is created by the origin future when it runs: a value that was never handed to the cache is
                // not "a value of the cache" (the cache may drop an unpolled user future wherever it likes)
                let key = self.ctx.owned_key(*k as u64);
                let (ctx, kk, ww) = (CtxRef(self.ctx.clone()), *k as u64, *w as usize);
                let cache = self.cache().clone();
                self.rt();
                let rt = self.rt.as_ref().unwrap();
                let mut fut = {
                    let _g = rt.enter();
                    Box::pin(cache.get_or_fetch(&key, move || async move {
                        let ctx = ctx;
                        Ok::<_, anyhow::Error>(ctx.0.make(kk, ww, true).1)
                    }))
                };
                drop(key);
                rt.block_on(async {
                    for _ in 0..4 {
                        tokio::task::yield_now().await;
                    }
                });
                let waker = futures_util::task::noop_waker();
                let mut cx = std::task::Context::from_waker(&waker);
                match fut.as_mut().poll(&mut cx) {
                    std::task::Poll::Ready(Ok(e)) => {
                        let id = e.value().id;
                        if *hold {
                            self.hold(e);
                        }
                        Ret::Got(Some(id))
                    }
                    std::task::Poll::Ready(Err(_)) => Ret::Got(None),
                    std::task::Poll::Pending => {
                        // joined a flight that never resolves
                        self.pending.push(fut);
                        Ret::None
                    }
                }
            }
            MemOp::FetchFail { k } => {
                let key = self.ctx.owned_key(*k as u64);
                let cache = self.cache().clone();
                self.rt();
                let rt = self.rt.as_ref().unwrap();
                let mut fut = {
                    let _g = rt.enter();
                    Box::pin(cache.get_or_fetch(&key, move || async move {
                        Err::<MVal, _>(anyhow::anyhow!("simulated origin failure"))
                    }))
                };
                drop(key);
                rt.block_on(async {
                    for _ in 0..4 {
                        tokio::task::yield_now().await;
                    }
                });
                let waker = futures_util::task::noop_waker();
                let mut cx = std::task::Context::from_waker(&waker);
                match fut.as_mut().poll(&mut cx) {
                    std::task::Poll::Ready(r) => Ret::Bool(r.is_ok()),
                    std::task::Poll::Pending => {
                        self.pending.push(fut);
                        Ret::None
                    }
                }
            }
            MemOp::FetchPending { k } => {
                let key = self.ctx.owned_key(*k as u64);
                let cache = self.cache().clone();
                self.rt();
                let rt = self.rt.as_ref().unwrap();
                {
                    let _g = rt.enter();
                    let fut = cache.get_or_fetch(&key, move || async move {
                        std::future::pending::<()>().await;
                        Err::<MVal, _>(anyhow::anyhow!("unreachable"))
                    });
                    self.pending.push(Box::pin(fut));
                    rt.block_on(async { tokio::task::yield_now().await });
                }
                drop(key);
                Ret::None
            }
        };
        self.observe(ret)
    }

    /// Run the whole history plus the standard epilogue.
    pub fn run(cfg: MemCfg, plan: Option<ReentrantPlan>, ops: &[MemOp]) -> Trace {
        let mut sim = MemSim::new(cfg, plan);
        let mut steps = Vec::with_capacity(ops.len());
        for op in ops {
            steps.push(sim.step(op));
        }
        // epilogue 1: drop every handle
        let mut final_drops = vec![];
        for slot in 0..sim.handles.len() {
            if let Some(h) = sim.handles[slot].take() {
                let id = h.id;
                drop(h);
                final_drops.push(sim.observe(Ret::Dropped(Some(id))));
            }
        }
        // epilogue 2: one weight-0 insert per shard with a fresh key that lands in that shard
        let mut final_inserts = vec![];
        let shards = sim.cfg.shards;
        for s in 0..shards {
            // find a key >= 64 (outside every universe and every hash table) with hash % shards == s
            let mut k = 64u64;
            while (sim.cfg.hash.hash_of(k) as usize) % shards != s {
                k += 1;
            }
            let (key, val) = sim.ctx.make(k, 0, true);
            let id = val.id;
            let e = sim.cache().insert(key, val);
            drop(e);
            final_inserts.push(sim.observe(Ret::Inserted { id }));
        }
        // epilogue 2b: cancel pending fetches (drop callers, then the runtime with its fetch tasks)
        sim.pending.clear();
        drop(sim.rt.take());
        // from here on callbacks only observe (probe) and no longer re-enter, so draining terminates
        sim.ctx.reenter_enabled.store(false, Ordering::SeqCst);
        loop {
            let parked = std::mem::take(&mut *sim.ctx.parked.lock());
            if parked.is_empty() {
                break;
            }
            drop(parked);
        }
        // epilogue 3: drop the cache
        let taken = sim.ctx.cache.lock().take();
        drop(taken);
        sim.cache = None;
        let final_cache_drop = sim.observe(Ret::None);
        let inserted = sim.ctx.inserted.lock().clone();
        Trace {
            steps,
            final_drops,
            final_inserts,
            final_cache_drop,
            inserted,
        }
    }
}
