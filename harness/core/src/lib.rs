//! Verification harness core for foyer: generators, interpreters, reference models, oracles, evidence.
//!
//! See /verif/DESIGN.md. Every check is `generator -> real foyer code -> explicit oracle`, driven by proptest
//! (seeded from VERIF_SEED) or by bounded-exhaustive enumeration.

pub mod common;
pub mod hasher;
pub mod memsim;
pub mod memoracle;
pub mod memchecks;
pub mod memrace;
pub mod evmodel;
pub mod evcheck;
pub mod fetchsim;
pub mod fetchcheck;
pub mod c16check;
pub mod c17check;
pub mod simdev;
pub mod hval;
pub mod hybsim;
pub mod fmtparse;
pub mod hyboracle;
pub mod hybchecks;
pub mod c12check;
pub mod c15check;
pub mod c10check;
pub mod c04check;
pub mod c03check;
pub mod c07check;
pub mod c08check;
pub mod c08shared;
pub mod c09check;
pub mod fuzzglue;

use common::{Failure, ReplayFile, Tier, case_from};

/// Run the check of one property; returns the process exit code.
pub fn dispatch(prop: &str, tier: Tier, seed: u64) -> i32 {
    match prop {
        "C01" => hybchecks::check_c01(tier, seed),
        "C02" => memrace::check_c02(tier, seed),
        "C02-FREE-CHILD" => memrace::check_c02_free_child(tier, seed),
        "C03" => c03check::check_c03(tier, seed),
        "C04" => c04check::check_c04(tier, seed),
        "C05" => memchecks::check_c05(tier, seed),
        "C06" => fetchcheck::check_c06(tier, seed),
        "C07" => c07check::check_c07(tier, seed),
        "C08" => c08check::check_c08(tier, seed),
        "C09" => c09check::check_c09(tier, seed),
        "C10" => c10check::check_c10(tier, seed),
        "C11" => fetchcheck::check_c11(tier, seed),
        "C12" => c12check::check_c12(tier, seed),
        "C13" => memchecks::check_c13(tier, seed),
        "C14" => evcheck::check_c14(tier, seed),
        "C15" => c15check::check_c15(tier, seed),
        "C16" => c16check::check_c16(tier, seed),
        "C17" => c17check::check_c17_memory_only(tier, seed).finish(),
        "C18" => memchecks::check_c18(tier, seed),
        _ => {
            eprintln!("no check registered for {prop}");
            2
        }
    }
}

/// Re-execute a saved case without proptest.
pub fn replay(rf: &ReplayFile) -> anyhow::Result<Option<Failure>> {
    let r = match (rf.property.as_str(), rf.sub.as_str()) {
        ("C05", "capdist") => memchecks::exec_capdist(&case_from(rf)?).failure,
        (_, s) if s.starts_with("fuzz-") => fuzzglue::replay(&case_from(rf)?),
        ("C01", _) => hybchecks::exec_c01(&case_from(rf)?).failure,
        ("C02", "free-crash") => memrace::replay_crash(&rf.case),
        ("C02", "free-history") => memrace::replay_history(&rf.case),
        ("C02", _) => memrace::exec_case(&case_from(rf)?).failure,
        ("C06", _) => fetchcheck::exec_fetch(fetchcheck::Which::C06, &case_from(rf)?).failure,
        ("C11", "free-history") => memrace::replay_c11_history(&rf.case),
        ("C11", _) => fetchcheck::exec_fetch(fetchcheck::Which::C11, &case_from(rf)?).failure,
        ("C17", "hybrid-collide") => c17check::replay_hybrid(case_from(rf)?),
        ("C17", "memory-collide") => c17check::replay_mem(case_from(rf)?),
        ("C17", "inflight-collide") => c17check::replay_fetch(case_from(rf)?),
        ("C16", _) => c16check::exec_c16(&case_from(rf)?).failure,
        ("C12", _) => c12check::exec_c12(&case_from(rf)?).failure,
        ("C15", _) => c15check::exec_c15(&case_from(rf)?).failure,
        ("C10", _) => c10check::exec_c10(&case_from(rf)?).failure,
        ("C04", _) => c04check::exec_c04(&case_from(rf)?).failure,
        ("C03", _) => c03check::exec_c03(&case_from(rf)?).failure,
        ("C08", "serde") => {
            let path = "/verif/out/replays/.serde_replay.json";
            std::fs::create_dir_all("/verif/out/replays")?;
            std::fs::write(path, serde_json::to_string(rf)?)?;
            let out = std::process::Command::new("/verif/target/release/check-serde").arg("replay").arg(path).output()?;
            let text = String::from_utf8_lossy(&out.stdout).to_string();
            text.lines().find(|l| l.starts_with("REPRODUCED")).map(|l| common::Failure::new(rf.signature.clone(), l.to_string()))
        }
        ("C08", "code") => c08check::exec_scalar(&case_from(rf)?).failure,
        ("C08", "ser") => c08check::exec_ser(&case_from(rf)?).failure,
        ("C08", "mut") => c08check::exec_mut(&case_from(rf)?).failure,
        ("C08", "tier") => c08check::exec_tier(&case_from(rf)?).failure,
        ("C07", "splitter") => c07check::exec_split(&case_from(rf)?).failure,
        ("C07", _) => c07check::exec_e2e(&case_from(rf)?).failure,
        ("C09", _) => c09check::exec_c09(&case_from(rf)?).failure,
        ("C14", _) => evcheck::exec_c14(&case_from(rf)?).failure,
        ("C05" | "C13" | "C18", _) => memchecks::replay_mem(&rf.property, case_from(rf)?),
        (p, s) => anyhow::bail!("no replay handler for {p}/{s}"),
    };
    Ok(r)
}
