//! A BuildHasher whose 64-bit output is a chosen function of the (small integer) key, so that generators control
//! shard placement and can build full 64-bit collisions.

use std::{
    hash::{BuildHasher, Hasher},
    sync::Arc,
};

use serde::{Deserialize, Serialize};

/// How keys map to hashes. Keys are small integers; key objects feed `write_u64(key)` (and nothing else).
#[derive(Clone, Debug, Serialize, Deserialize, PartialEq, Eq, Default)]
pub enum HashSpec {
    /// hash(k) = k
    #[default]
    Identity,
    /// hash(k) = table[k] (k beyond the table: identity). Lets several keys share one 64-bit hash.
    Table(Vec<u64>),
}

impl HashSpec {
    pub fn hash_of(&self, k: u64) -> u64 {
        match self {
            HashSpec::Identity => k,
            HashSpec::Table(t) => t.get(k as usize).copied().unwrap_or(k),
        }
    }
}

#[derive(Clone, Debug, Default)]
pub struct SpecHasher {
    spec: Arc<HashSpec>,
}

impl SpecHasher {
    pub fn new(spec: HashSpec) -> Self {
        Self { spec: Arc::new(spec) }
    }
}

pub struct SpecHasherState {
    spec: Arc<HashSpec>,
    v: u64,
    fed: bool,
}

impl Hasher for SpecHasherState {
    fn finish(&self) -> u64 {
        self.spec.hash_of(self.v)
    }

    fn write(&mut self, bytes: &[u8]) {
        // Fallback for non-u64 keys (e.g. strings "k<digits>"): parse trailing decimal digits as the key number,
        // else fold bytes.
        let mut digits = 0u64;
        let mut any = false;
        for &b in bytes {
            if b.is_ascii_digit() {
                digits = digits.wrapping_mul(10).wrapping_add((b - b'0') as u64);
                any = true;
            }
        }
        if any {
            self.v = digits;
        } else if !self.fed {
            for &b in bytes {
                self.v = self.v.wrapping_mul(131).wrapping_add(b as u64);
            }
        }
        self.fed = true;
    }

    fn write_u64(&mut self, i: u64) {
        self.v = i;
        self.fed = true;
    }

    fn write_u8(&mut self, _: u8) {
        // str hashing appends 0xff; ignore
    }

    fn write_usize(&mut self, _: usize) {
        // length prefixes of slices; ignore
    }
}

impl BuildHasher for SpecHasher {
    type Hasher = SpecHasherState;

    fn build_hasher(&self) -> Self::Hasher {
        SpecHasherState {
            spec: self.spec.clone(),
            v: 0,
            fed: false,
        }
    }
}
