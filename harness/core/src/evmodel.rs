//! Reference models of the five eviction algorithms (C14), written from the module/config documentation and the
//! SIEVE / S3-FIFO / W-TinyLFU papers over plain `VecDeque`s (DESIGN.md Appendix A).
//!
//! The model is *set-valued*: steps the documentation leaves open fork the candidate; the checker keeps the
//! candidates that agree with the observed victim sequence. With no open step it is an exact differential oracle.

use std::collections::{BTreeMap, BTreeSet, VecDeque};

use datasketches::countmin::CountMinSketch;

use crate::memsim::Algo;

pub type Id = u64;

#[derive(Clone, Debug, PartialEq)]
pub struct RRec {
    pub key: u64,
    pub hash: u64,
    pub w: usize,
    pub low: bool,
    pub refs: usize,
    pub in_eviction: bool,
    // lru
    pub in_high: bool,
    pub pinned: bool,
    // sieve
    pub visited: bool,
    // s3fifo
    pub freq: u8,
    pub queue: Q,
}

#[derive(Clone, Copy, Debug, PartialEq, Eq)]
pub enum Q {
    None,
    Small,
    Main,
    Window,
    Probation,
    Protected,
}

struct CmKey(u64);
impl std::hash::Hash for CmKey {
    fn hash<H: std::hash::Hasher>(&self, state: &mut H) {
        state.write_u64(self.0);
    }
}

#[derive(Clone, Debug, PartialEq)]
pub enum AlgoState {
    Fifo {
        q: VecDeque<Id>,
    },
    Lru {
        ratio: f64,
        high: VecDeque<Id>,
        low: VecDeque<Id>,
        high_w: usize,
        high_cap: usize,
    },
    Sieve {
        q: VecDeque<Id>,
        hand: Option<Id>,
    },
    S3 {
        small_ratio: f64,
        ghost_ratio: f64,
        thr: u8,
        small: VecDeque<Id>,
        main: VecDeque<Id>,
        small_w: usize,
        main_w: usize,
        small_cap: usize,
        ghost_q: VecDeque<(u64, usize)>,
        /// membership as a plain set (one entry per hash, removed when *any* copy of the hash is dequeued)
        ghost_set: BTreeSet<u64>,
        ghost_w: usize,
        ghost_cap: usize,
    },
    Lfu {
        window_ratio: f64,
        protected_ratio: f64,
        window: VecDeque<Id>,
        probation: VecDeque<Id>,
        protected: VecDeque<Id>,
        window_w: usize,
        probation_w: usize,
        protected_w: usize,
        window_cap: usize,
        protected_cap: usize,
        sketch: CountMinSketch<u16>,
        step: usize,
        decay: usize,
    },
}

/// Counters of non-default branches taken (evidence: what the histories actually exercised).
#[derive(Clone, Debug, Default, PartialEq)]
pub struct Branches {
    pub lru_pool_overflow: u32,
    pub lru_pinned_skipped: u32,
    pub lru_resize_with_pinned: u32,
    pub lru_low_first: u32,
    pub sieve_hand_wrap: u32,
    pub sieve_remove_at_hand: u32,
    pub sieve_visited_cleared: u32,
    pub s3_promote: u32,
    pub s3_ghost_hit: u32,
    pub s3_ghost_evict: u32,
    pub s3_freq_cap: u32,
    pub s3_forced_small: u32,
    pub s3_main_reinsert: u32,
    pub lfu_promote: u32,
    pub lfu_protected_overflow: u32,
    pub lfu_decided_by_freq: u32,
    pub lfu_tie: u32,
    pub lfu_halve: u32,
    pub open_steps: u32,
}

#[derive(Clone, Debug, PartialEq)]
pub struct RefCache {
    pub cap: usize,
    pub usage: usize,
    pub recs: BTreeMap<Id, RRec>,
    pub resident: BTreeMap<u64, Id>,
    pub st: AlgoState,
    pub br: Branches,
}

fn fcap(cap: usize, ratio: f64) -> usize {
    (cap as f64 * ratio) as usize
}

impl RefCache {
    pub fn new(algo: &Algo, cap: usize) -> Self {
        let st = match algo {
            Algo::Fifo => AlgoState::Fifo { q: VecDeque::new() },
            Algo::Lru { ratio_pct } => {
                let ratio = *ratio_pct as f64 / 100.0;
                AlgoState::Lru {
                    ratio,
                    high: VecDeque::new(),
                    low: VecDeque::new(),
                    high_w: 0,
                    high_cap: fcap(cap, ratio),
                }
            }
            Algo::Sieve => AlgoState::Sieve {
                q: VecDeque::new(),
                hand: None,
            },
            Algo::S3Fifo { small_pct, ghost_pct, thr } => {
                let small_ratio = *small_pct as f64 / 100.0;
                let ghost_ratio = *ghost_pct as f64 / 100.0;
                AlgoState::S3 {
                    small_ratio,
                    ghost_ratio,
                    thr: (*thr).min(3),
                    small: VecDeque::new(),
                    main: VecDeque::new(),
                    small_w: 0,
                    main_w: 0,
                    small_cap: fcap(cap, small_ratio),
                    ghost_q: VecDeque::new(),
                    ghost_set: BTreeSet::new(),
                    ghost_w: 0,
                    ghost_cap: fcap(cap, ghost_ratio),
                }
            }
            Algo::Lfu {
                window_pct,
                protected_pct,
                eps_milli,
            } => {
                let window_ratio = *window_pct as f64 / 100.0;
                let protected_ratio = *protected_pct as f64 / 100.0;
                let eps = *eps_milli as f64 / 1000.0;
                let num_hashes = CountMinSketch::<u16>::suggest_num_hashes(0.9);
                let num_buckets = CountMinSketch::<u16>::suggest_num_buckets(eps);
                AlgoState::Lfu {
                    window_ratio,
                    protected_ratio,
                    window: VecDeque::new(),
                    probation: VecDeque::new(),
                    protected: VecDeque::new(),
                    window_w: 0,
                    probation_w: 0,
                    protected_w: 0,
                    window_cap: fcap(cap, window_ratio),
                    protected_cap: fcap(cap, protected_ratio),
                    sketch: CountMinSketch::<u16>::new(num_hashes, num_buckets),
                    step: 0,
                    decay: num_buckets as usize,
                }
            }
        };
        Self {
            cap,
            usage: 0,
            recs: BTreeMap::new(),
            resident: BTreeMap::new(),
            st,
            br: Branches::default(),
        }
    }

    fn unlink(q: &mut VecDeque<Id>, id: Id) -> bool {
        if let Some(p) = q.iter().position(|x| *x == id) {
            q.remove(p);
            true
        } else {
            false
        }
    }

    // ---- eviction interface -------------------------------------------------------------------------------

    fn lru_overflow(&mut self) {
        if let AlgoState::Lru {
            high, low, high_w, high_cap, ..
        } = &mut self.st
        {
            while *high_w > *high_cap {
                let id = high.pop_front().expect("high pool weight > 0 implies non-empty");
                let r = self.recs.get_mut(&id).unwrap();
                r.in_high = false;
                *high_w -= r.w;
                low.push_back(id);
                self.br.lru_pool_overflow += 1;
            }
        }
    }

    fn lfu_touch_sketch(&mut self, hash: u64) {
        if let AlgoState::Lfu { sketch, step, decay, .. } = &mut self.st {
            sketch.update(CmKey(hash));
            *step += 1;
            if *step >= *decay {
                *step >>= 1;
                sketch.halve();
                self.br.lfu_halve += 1;
            }
        }
    }

    /// push; may fork (S3-FIFO ghost membership with duplicate hashes)
    fn push(mut self, id: Id) -> Vec<Self> {
        let (hash, w, low_hint) = {
            let r = self.recs.get_mut(&id).unwrap();
            r.in_eviction = true;
            (r.hash, r.w, r.low)
        };
        match &mut self.st {
            AlgoState::Fifo { q } => {
                q.push_back(id);
                vec![self]
            }
            AlgoState::Lru { high, low, high_w, .. } => {
                let r = self.recs.get_mut(&id).unwrap();
                if low_hint {
                    r.in_high = false;
                    low.push_back(id);
                } else {
                    r.in_high = true;
                    *high_w += w;
                    high.push_back(id);
                }
                self.lru_overflow();
                vec![self]
            }
            AlgoState::Sieve { q, .. } => {
                self.recs.get_mut(&id).unwrap().visited = false;
                q.push_back(id);
                vec![self]
            }
            AlgoState::S3 { ghost_q, ghost_set, .. } => {
                let in_set = ghost_set.contains(&hash);
                let in_queue = ghost_q.iter().any(|(h, _)| *h == hash);
                let mut outs = vec![];
                let mut options = vec![in_set];
                if in_queue != in_set {
                    options.push(in_queue);
                }
                let forked = options.len() > 1;
                for ghost_hit in options {
                    let mut c = self.clone();
                    if forked {
                        c.br.open_steps += 1;
                    }
                    if let AlgoState::S3 {
                        small, main, small_w, main_w, ..
                    } = &mut c.st
                    {
                        let r = c.recs.get_mut(&id).unwrap();
                        r.freq = 0;
                        if ghost_hit {
                            r.queue = Q::Main;
                            *main_w += w;
                            main.push_back(id);
                            c.br.s3_ghost_hit += 1;
                        } else {
                            r.queue = Q::Small;
                            *small_w += w;
                            small.push_back(id);
                        }
                    }
                    outs.push(c);
                }
                outs
            }
            AlgoState::Lfu { .. } => {
                self.recs.get_mut(&id).unwrap().queue = Q::Window;
                if let AlgoState::Lfu { window, window_w, .. } = &mut self.st {
                    *window_w += w;
                    window.push_back(id);
                }
                self.lfu_touch_sketch(hash);
                if let AlgoState::Lfu {
                    window,
                    probation,
                    window_w,
                    probation_w,
                    window_cap,
                    ..
                } = &mut self.st
                {
                    while *window_w > *window_cap {
                        let x = window.pop_front().unwrap();
                        let r = self.recs.get_mut(&x).unwrap();
                        *window_w -= r.w;
                        r.queue = Q::Probation;
                        *probation_w += r.w;
                        probation.push_back(x);
                    }
                }
                vec![self]
            }
        }
    }

    /// pop one victim; set-valued
    fn pop(mut self) -> Vec<(Self, Option<Id>)> {
        match &mut self.st {
            AlgoState::Fifo { q } => {
                let v = q.pop_front();
                if let Some(id) = v {
                    self.recs.get_mut(&id).unwrap().in_eviction = false;
                }
                vec![(self, v)]
            }
            AlgoState::Lru { high, low, high_w, .. } => {
                let from_low = !low.is_empty();
                let v = low.pop_front().or_else(|| high.pop_front());
                if let Some(id) = v {
                    let r = self.recs.get_mut(&id).unwrap();
                    if r.in_high {
                        *high_w -= r.w;
                        r.in_high = false;
                    }
                    r.in_eviction = false;
                    if from_low && !high.is_empty() {
                        self.br.lru_low_first += 1;
                    }
                } else if self.recs.values().any(|r| r.in_eviction && r.pinned) {
                    self.br.lru_pinned_skipped += 1;
                }
                vec![(self, v)]
            }
            AlgoState::Sieve { q, hand } => {
                if q.is_empty() {
                    return vec![(self, None)];
                }
                let mut pos = match hand {
                    Some(h) => q.iter().position(|x| x == h).expect("hand points into the queue"),
                    None => 0,
                };
                loop {
                    let id = q[pos];
                    let r = self.recs.get_mut(&id).unwrap();
                    if !r.visited {
                        break;
                    }
                    r.visited = false;
                    self.br.sieve_visited_cleared += 1;
                    if pos + 1 >= q.len() {
                        pos = 0;
                        self.br.sieve_hand_wrap += 1;
                    } else {
                        pos += 1;
                    }
                }
                let id = q.remove(pos).unwrap();
                *hand = q.get(pos).copied();
                self.recs.get_mut(&id).unwrap().in_eviction = false;
                vec![(self, Some(id))]
            }
            AlgoState::S3 { small_w, small_cap, .. } => {
                // open step: "small is over its share" at equality
                let mut variants = vec![*small_w > *small_cap];
                if *small_w == *small_cap && *small_w > 0 {
                    variants.push(true);
                }
                let forked = variants.len() > 1;
                let mut outs = vec![];
                for try_small in variants {
                    let mut c = self.clone();
                    if forked {
                        c.br.open_steps += 1;
                    }
                    let mut v = None;
                    if try_small {
                        v = c.s3_evict_small();
                    }
                    if v.is_none() {
                        v = c.s3_evict_main();
                    }
                    if v.is_none() {
                        v = c.s3_evict_small_force();
                    }
                    if let Some(id) = v {
                        c.recs.get_mut(&id).unwrap().in_eviction = false;
                    }
                    outs.push((c, v));
                }
                outs
            }
            AlgoState::Lfu {
                window,
                probation,
                protected,
                sketch,
                ..
            } => {
                let choices: Vec<Q> = match (window.front(), probation.front()) {
                    (None, None) => {
                        if protected.is_empty() {
                            return vec![(self, None)];
                        }
                        vec![Q::Protected]
                    }
                    (None, Some(_)) => vec![Q::Probation],
                    (Some(_), None) => vec![Q::Window],
                    (Some(w), Some(p)) => {
                        let ew = sketch.estimate(CmKey(self.recs[w].hash));
                        let ep = sketch.estimate(CmKey(self.recs[p].hash));
                        if ew < ep {
                            self.br.lfu_decided_by_freq += 1;
                            vec![Q::Window]
                        } else if ew > ep {
                            self.br.lfu_decided_by_freq += 1;
                            vec![Q::Probation]
                        } else {
                            self.br.lfu_tie += 1;
                            // the documentation says "the lower one": a tie is open
                            vec![Q::Probation, Q::Window]
                        }
                    }
                };
                let forked = choices.len() > 1;
                let mut outs = vec![];
                for qsel in choices {
                    let mut c = self.clone();
                    if forked {
                        c.br.open_steps += 1;
                    }
                    if let AlgoState::Lfu {
                        window,
                        probation,
                        protected,
                        window_w,
                        probation_w,
                        protected_w,
                        ..
                    } = &mut c.st
                    {
                        let id = match qsel {
                            Q::Window => window.pop_front().unwrap(),
                            Q::Probation => probation.pop_front().unwrap(),
                            _ => protected.pop_front().unwrap(),
                        };
                        let r = c.recs.get_mut(&id).unwrap();
                        match qsel {
                            Q::Window => *window_w -= r.w,
                            Q::Probation => *probation_w -= r.w,
                            _ => *protected_w -= r.w,
                        }
                        r.queue = Q::None;
                        r.in_eviction = false;
                        outs.push((c, Some(id)));
                    }
                }
                outs
            }
        }
    }

    fn s3_evict_small(&mut self) -> Option<Id> {
        loop {
            let AlgoState::S3 {
                small,
                main,
                small_w,
                main_w,
                thr,
                ghost_q,
                ghost_set,
                ghost_w,
                ghost_cap,
                ..
            } = &mut self.st
            else {
                unreachable!()
            };
            let id = small.pop_front()?;
            let r = self.recs.get_mut(&id).unwrap();
            if r.freq >= *thr {
                r.queue = Q::Main;
                *small_w -= r.w;
                *main_w += r.w;
                main.push_back(id);
                self.br.s3_promote += 1;
            } else {
                r.queue = Q::None;
                r.freq = 0;
                *small_w -= r.w;
                // ghost push
                if *ghost_cap > 0 {
                    while *ghost_w + r.w > *ghost_cap && *ghost_w > 0 {
                        if let Some((h, w)) = ghost_q.pop_front() {
                            *ghost_w -= w;
                            ghost_set.remove(&h);
                            self.br.s3_ghost_evict += 1;
                        }
                    }
                    ghost_q.push_back((r.hash, r.w));
                    ghost_set.insert(r.hash);
                    *ghost_w += r.w;
                }
                return Some(id);
            }
        }
    }

    fn s3_evict_main(&mut self) -> Option<Id> {
        loop {
            let AlgoState::S3 { main, main_w, .. } = &mut self.st else { unreachable!() };
            let id = main.pop_front()?;
            let r = self.recs.get_mut(&id).unwrap();
            let prev = r.freq;
            r.freq = r.freq.saturating_sub(1);
            if prev > 0 {
                main.push_back(id);
                self.br.s3_main_reinsert += 1;
            } else {
                r.queue = Q::None;
                *main_w -= r.w;
                return Some(id);
            }
        }
    }

    fn s3_evict_small_force(&mut self) -> Option<Id> {
        let AlgoState::S3 { small, small_w, .. } = &mut self.st else { unreachable!() };
        let id = small.pop_front()?;
        let r = self.recs.get_mut(&id).unwrap();
        r.queue = Q::None;
        r.freq = 0;
        *small_w -= r.w;
        self.br.s3_forced_small += 1;
        Some(id)
    }

    /// remove from the eviction structure (entry removed / replaced); set-valued (SIEVE hand)
    fn ev_remove(mut self, id: Id) -> Vec<Self> {
        let (w, in_high, pinned, queue) = {
            let r = self.recs.get_mut(&id).unwrap();
            r.in_eviction = false;
            (r.w, r.in_high, r.pinned, r.queue)
        };
        match &mut self.st {
            AlgoState::Fifo { q } => {
                Self::unlink(q, id);
                vec![self]
            }
            AlgoState::Lru { high, low, high_w, .. } => {
                if pinned {
                    // in neither list
                } else if in_high {
                    *high_w -= w;
                    Self::unlink(high, id);
                } else {
                    Self::unlink(low, id);
                }
                self.recs.get_mut(&id).unwrap().in_high = false;
                vec![self]
            }
            AlgoState::Sieve { q, hand } => {
                if *hand == Some(id) {
                    let pos = q.iter().position(|x| *x == id).unwrap();
                    let succ = q.get(pos + 1).copied();
                    q.remove(pos);
                    self.br.sieve_remove_at_hand += 1;
                    // open: the paper does not define external removal of the hand's target
                    let mut a = self.clone();
                    if let AlgoState::Sieve { hand, .. } = &mut a.st {
                        *hand = None;
                    }
                    let mut outs = vec![a];
                    if succ.is_some() {
                        let mut b = self;
                        b.br.open_steps += 1;
                        if let AlgoState::Sieve { hand, .. } = &mut b.st {
                            *hand = succ;
                        }
                        outs.push(b);
                    }
                    outs
                } else {
                    Self::unlink(q, id);
                    vec![self]
                }
            }
            AlgoState::S3 {
                small, main, small_w, main_w, ..
            } => {
                match queue {
                    Q::Main => {
                        Self::unlink(main, id);
                        *main_w -= w;
                    }
                    Q::Small => {
                        Self::unlink(small, id);
                        *small_w -= w;
                    }
                    _ => unreachable!("record in eviction has a queue"),
                }
                let r = self.recs.get_mut(&id).unwrap();
                r.queue = Q::None;
                r.freq = 0;
                vec![self]
            }
            AlgoState::Lfu {
                window,
                probation,
                protected,
                window_w,
                probation_w,
                protected_w,
                ..
            } => {
                match queue {
                    Q::Window => {
                        Self::unlink(window, id);
                        *window_w -= w;
                    }
                    Q::Probation => {
                        Self::unlink(probation, id);
                        *probation_w -= w;
                    }
                    Q::Protected => {
                        Self::unlink(protected, id);
                        *protected_w -= w;
                    }
                    _ => unreachable!(),
                }
                self.recs.get_mut(&id).unwrap().queue = Q::None;
                vec![self]
            }
        }
    }

    fn acquire(&mut self, id: Id) {
        let (hash, in_ev) = {
            let r = &self.recs[&id];
            (r.hash, r.in_eviction)
        };
        match &mut self.st {
            AlgoState::Fifo { .. } => {}
            AlgoState::Lru { high, low, high_w, .. } => {
                let r = self.recs.get_mut(&id).unwrap();
                if !in_ev || r.pinned {
                    return;
                }
                if r.in_high {
                    Self::unlink(high, id);
                    *high_w -= r.w;
                } else {
                    Self::unlink(low, id);
                }
                r.pinned = true;
            }
            AlgoState::Sieve { .. } => {
                self.recs.get_mut(&id).unwrap().visited = true;
            }
            AlgoState::S3 { .. } => {
                let r = self.recs.get_mut(&id).unwrap();
                if r.freq >= 3 {
                    self.br.s3_freq_cap += 1;
                }
                r.freq = (r.freq + 1).min(3);
            }
            AlgoState::Lfu { .. } => {
                self.lfu_touch_sketch(hash);
                if !in_ev {
                    return;
                }
                let q = self.recs[&id].queue;
                let w = self.recs[&id].w;
                if let AlgoState::Lfu {
                    window,
                    probation,
                    protected,
                    probation_w,
                    protected_w,
                    protected_cap,
                    ..
                } = &mut self.st
                {
                    match q {
                        Q::Window => {
                            Self::unlink(window, id);
                            window.push_back(id);
                        }
                        Q::Probation => {
                            Self::unlink(probation, id);
                            *probation_w -= w;
                            self.recs.get_mut(&id).unwrap().queue = Q::Protected;
                            *protected_w += w;
                            protected.push_back(id);
                            self.br.lfu_promote += 1;
                            while *protected_w > *protected_cap {
                                let x = protected.pop_front().unwrap();
                                let r = self.recs.get_mut(&x).unwrap();
                                *protected_w -= r.w;
                                r.queue = Q::Probation;
                                *probation_w += r.w;
                                probation.push_back(x);
                                self.br.lfu_protected_overflow += 1;
                            }
                        }
                        Q::Protected => {
                            Self::unlink(protected, id);
                            protected.push_back(id);
                        }
                        _ => unreachable!(),
                    }
                }
            }
        }
    }

    fn release(&mut self, id: Id) {
        if let AlgoState::Lru { high, low, high_w, .. } = &mut self.st {
            let r = self.recs.get_mut(&id).unwrap();
            if !r.in_eviction || !r.pinned {
                return;
            }
            r.pinned = false;
            if r.in_high {
                *high_w += r.w;
                high.push_back(id);
            } else {
                low.push_back(id);
            }
            self.lru_overflow();
        }
    }

    fn ev_update(&mut self, cap: usize) {
        match &mut self.st {
            AlgoState::Lru { ratio, high_cap, .. } => {
                *high_cap = fcap(cap, *ratio);
                if self.recs.values().any(|r| r.in_eviction && r.pinned) {
                    self.br.lru_resize_with_pinned += 1;
                }
                self.lru_overflow();
            }
            AlgoState::S3 {
                small_ratio,
                ghost_ratio,
                small_cap,
                ghost_cap,
                ghost_q,
                ghost_set,
                ghost_w,
                ..
            } => {
                *small_cap = fcap(cap, *small_ratio);
                *ghost_cap = fcap(cap, *ghost_ratio);
                if *ghost_cap != 0 {
                    while *ghost_w > *ghost_cap && *ghost_w > 0 {
                        if let Some((h, w)) = ghost_q.pop_front() {
                            *ghost_w -= w;
                            ghost_set.remove(&h);
                        }
                    }
                }
            }
            AlgoState::Lfu {
                window_ratio,
                protected_ratio,
                window_cap,
                protected_cap,
                ..
            } => {
                *window_cap = fcap(cap, *window_ratio);
                *protected_cap = fcap(cap, *protected_ratio);
            }
            _ => {}
        }
    }

    // ---- cache-level driver (the documented emplace / evict loop) -----------------------------------------

    /// evict while usage > target; set-valued; returns victims' keys in order
    fn evict_to(self, target: usize) -> Vec<(Self, Vec<u64>)> {
        let mut done = vec![];
        let mut work = vec![(self, vec![])];
        while let Some((c, victims)) = work.pop() {
            if c.usage <= target {
                done.push((c, victims));
                continue;
            }
            for (mut n, v) in c.pop() {
                match v {
                    None => done.push((n, victims.clone())),
                    Some(id) => {
                        let (key, w) = {
                            let r = &n.recs[&id];
                            (r.key, r.w)
                        };
                        n.usage -= w;
                        n.resident.remove(&key);
                        let mut vs = victims.clone();
                        vs.push(key);
                        work.push((n, vs));
                    }
                }
            }
        }
        done
    }

    pub fn insert(self, key: u64, hash: u64, w: usize, low: bool, id: Id, hold: bool) -> Vec<(Self, Vec<u64>)> {
        let target = self.cap.saturating_sub(w);
        let mut outs = vec![];
        for (mut c, victims) in self.evict_to(target) {
            c.recs.insert(
                id,
                RRec {
                    key,
                    hash,
                    w,
                    low,
                    refs: 1,
                    in_eviction: false,
                    in_high: false,
                    pinned: false,
                    visited: false,
                    freq: 0,
                    queue: Q::None,
                },
            );
            let olds: Vec<Self> = match c.resident.get(&key).copied() {
                Some(old) => {
                    let ow = c.recs[&old].w;
                    c.usage -= ow;
                    c.resident.remove(&key);
                    if c.recs[&old].in_eviction { c.ev_remove(old) } else { vec![c] }
                }
                None => vec![c],
            };
            for c2 in olds {
                for mut c3 in c2.push(id) {
                    c3.resident.insert(key, id);
                    c3.usage += w;
                    if !hold {
                        c3.drop_handle(id);
                    }
                    outs.push((c3, victims.clone()));
                }
            }
        }
        outs
    }

    /// get / touch hit: acquire; `hold` false = touch (handle dropped at once)
    pub fn lookup(&mut self, key: u64, hold: bool) -> Option<Id> {
        let id = self.resident.get(&key).copied()?;
        self.recs.get_mut(&id).unwrap().refs += 1;
        self.acquire(id);
        if !hold {
            self.drop_handle(id);
        }
        Some(id)
    }

    pub fn clone_handle(&mut self, id: Id) {
        self.recs.get_mut(&id).unwrap().refs += 1;
    }

    pub fn drop_handle(&mut self, id: Id) {
        let r = self.recs.get_mut(&id).unwrap();
        r.refs -= 1;
        if r.refs == 0 {
            self.release(id);
        }
    }

    pub fn remove(mut self, key: u64, hold: bool) -> Vec<(Self, Option<Id>)> {
        let Some(id) = self.resident.get(&key).copied() else {
            return vec![(self, None)];
        };
        self.resident.remove(&key);
        self.usage -= self.recs[&id].w;
        self.recs.get_mut(&id).unwrap().refs += 1;
        let outs = if self.recs[&id].in_eviction { self.ev_remove(id) } else { vec![self] };
        outs.into_iter()
            .map(|mut c| {
                if !hold {
                    c.drop_handle(id);
                }
                (c, Some(id))
            })
            .collect()
    }

    pub fn resize(mut self, cap: usize) -> Vec<(Self, Vec<u64>)> {
        self.ev_update(cap);
        self.cap = cap;
        self.evict_to(cap)
    }

    pub fn evict_all(self) -> Vec<(Self, Vec<u64>)> {
        self.evict_to(0)
    }

    pub fn resident_mask(&self, universe: u8) -> u32 {
        let mut m = 0;
        for k in self.resident.keys() {
            if *k < universe as u64 {
                m |= 1 << k;
            }
        }
        m
    }
}
