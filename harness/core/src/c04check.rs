//! C04: recovery after a crash at any point is consistent.
//!
//! A generated workload runs on hybsim with held io and a generated completion order. After every completed device
//! write (and for page-granular tears of every write that is in flight at that moment) the device image is
//! snapshotted = "the process died here". Every snapshot is reopened in the default (quiet) recovery mode and all keys
//! are read back.

use std::collections::BTreeMap;

use proptest::prelude::*;
use serde::{Deserialize, Serialize};

use crate::{
    common::{CaseReport, Check, Failure, Tier, midx},
    fmtparse::{WriteKind, classify_write},
    hasher::HashSpec,
    hval::{Decoded, is_tiny_of},
    hybsim::{HybCfg, HybSim, KeyClass, LookupOut},
    memsim::Algo,
    simdev::IoKind,
};

#[derive(Clone, Debug, Serialize, Deserialize, PartialEq, Eq)]
pub enum COp {
    Insert { k: u8, pages: u8 },
    Delete { k: u8 },
    EvictAll,
    /// issue wait(); it is acknowledged when its future resolves
    Wait,
    CompleteIo { i: u16 },
}

#[derive(Clone, Debug, Serialize, Deserialize)]
pub struct CCase {
    pub write_on_insertion: bool,
    pub tombstone: bool,
    pub flushers: usize,
    /// small device => blocks get reclaimed (validity only); large => durability clauses apply
    pub blocks: usize,
    pub ops: Vec<COp>,
    /// second workload run after reopening selected crash images (restart cycle)
    pub ops2: Vec<COp>,
    /// which crash images (indices, mapped monotonically) get the second cycle
    pub cycle_picks: Vec<u16>,
    pub tear_masks: Vec<u64>,
}

fn cop() -> impl Strategy<Value = COp> {
    prop_oneof![
        8 => (0u8..5, 1u8..=3).prop_map(|(k, pages)| COp::Insert { k, pages }),
        2 => (0u8..5).prop_map(|k| COp::Delete { k }),
        3 => Just(COp::EvictAll),
        3 => Just(COp::Wait),
        8 => any::<u16>().prop_map(|i| COp::CompleteIo { i }),
    ]
}

pub fn ccase() -> impl Strategy<Value = CCase> {
    (
        any::<bool>(),
        any::<bool>(),
        1usize..=2,
        prop_oneof![2 => Just(16usize), 1 => Just(4usize), 1 => Just(5usize)],
        prop::collection::vec(cop(), 1..=30),
        prop::collection::vec(cop(), 0..=10),
        prop::collection::vec(any::<u16>(), 0..=3),
        prop::collection::vec(any::<u64>(), 0..=4),
    )
        .prop_map(|(write_on_insertion, tombstone, flushers, blocks, ops, ops2, cycle_picks, tear_masks)| CCase {
            write_on_insertion,
            tombstone,
            flushers: if blocks < 8 { 1 } else { flushers },
            blocks,
            ops,
            ops2,
            cycle_picks,
            tear_masks,
        })
}

fn cfg_of(case: &CCase) -> HybCfg {
    HybCfg {
        write_on_insertion: case.write_on_insertion,
        algo: Algo::Fifo,
        mem_capacity: 1 << 20,
        mem_shards: 1,
        tombstone: case.tombstone,
        compression: 0,
        flushers: case.flushers,
        reclaimers: 1,
        blocks: case.blocks,
        block_size: 16 * 1024,
        blob_index_size: 4096,
        clean_block_threshold: 1,
        flush_on_close: true,
        hash: HashSpec::Identity,
        key_class: vec![KeyClass::DiskAllowed; 5],
        buffer_pool_size: case.flushers * 16 * 16 * 1024,
        submit_queue_threshold: 1 << 30,
        admission_reject: vec![],
        reinsert: vec![],
        indexer_shards: 4,
        invalid_ratio_picker: false,
        hold_io: true,
        probation_pct: 10,
    }
}

#[derive(Clone, Debug)]
enum LastOp {
    Insert(u64),
    Delete,
}

#[derive(Clone, Debug, Default)]
struct KeyHist {
    /// every version ever inserted for the key (ascending)
    versions: Vec<(u64, usize)>,
    /// (op sequence number, op) of the latest op on the key
    latest: Option<(u64, LastOp)>,
    /// the latest op has been handed to the disk tier (write-on-eviction: only once the entry left memory)
    submitted: bool,
    /// op sequence number at which it was handed over
    submitted_at: u64,
    /// latest op on the key that was acknowledged by a resolved wait()
    acked: Option<(u64, LastOp)>,
}

struct Snapshot {
    image: Vec<Vec<u8>>,
    hist: BTreeMap<u64, KeyHist>,
    label: String,
    torn: bool,
    reclaimed: bool,
    next_version: u64,
}

fn value_len(pages: u8) -> usize {
    (pages as usize).clamp(1, 3) * 4096 - crate::hybsim::ENTRY_OVERHEAD - 7
}

struct Runner {
    woi: bool,
    sim: HybSim,
    hist: BTreeMap<u64, KeyHist>,
    opseq: u64,
    /// outstanding waits: (task, opseq at issue)
    waits: Vec<(usize, u64)>,
    writes_done: usize,
}

impl Runner {
    fn ack(&mut self) {
        let mut done = vec![];
        for (idx, (t, at)) in self.waits.clone().into_iter().enumerate() {
            if self.sim.raw_task_done(t) {
                done.push(idx);
                for h in self.hist.values_mut() {
                    if let Some((s, op)) = &h.latest {
                        if *s <= at && h.submitted && h.submitted_at <= at {
                            // every op issued before this wait is flushed
                            if h.acked.as_ref().map(|(a, _)| *a < *s).unwrap_or(true) {
                                h.acked = Some((*s, op.clone()));
                            }
                        }
                    }
                }
            }
        }
        for idx in done.into_iter().rev() {
            self.waits.remove(idx);
        }
    }

    fn apply(&mut self, op: &COp) -> bool {
        match op {
            COp::Insert { k, pages } => {
                self.opseq += 1;
                let key = *k as u64;
                let len = value_len(*pages);
                let v = self.sim.raw_insert(key, len);
                let h = self.hist.entry(key).or_default();
                h.versions.push((v, len));
                h.latest = Some((self.opseq, LastOp::Insert(v)));
                h.submitted = self.woi;
                h.submitted_at = self.opseq;
                self.sim.raw_settle();
                false
            }
            COp::Delete { k } => {
                self.opseq += 1;
                let key = *k as u64;
                self.sim.raw_remove(key);
                let h = self.hist.entry(key).or_default();
                h.latest = Some((self.opseq, LastOp::Delete));
                h.submitted = true;
                h.submitted_at = self.opseq;
                self.sim.raw_settle();
                false
            }
            COp::EvictAll => {
                self.opseq += 1;
                for h in self.hist.values_mut() {
                    if !h.submitted {
                        h.submitted = true;
                        h.submitted_at = self.opseq;
                    }
                }
                self.sim.raw_evict_all();
                self.sim.raw_settle();
                false
            }
            COp::Wait => {
                let t = self.sim.raw_wait_issue();
                self.waits.push((t, self.opseq));
                self.sim.raw_settle();
                self.ack();
                false
            }
            COp::CompleteIo { i } => {
                let pend = self.sim.disk.pending();
                if pend.is_empty() {
                    return false;
                }
                let idx = midx(*i, pend.len());
                let was_write = pend[idx].kind == IoKind::Write;
                self.sim.raw_complete_io(idx);
                self.ack();
                if was_write {
                    self.writes_done += 1;
                }
                was_write
            }
        }
    }
}

fn reclaimed_so_far(sim: &mut HybSim, tombstone: bool) -> bool {
    let tomb = if tombstone { Some(0usize) } else { None };
    sim.full_log()
        .iter()
        .filter(|(_, r)| r.kind == IoKind::Write)
        .any(|(_, r)| matches!(classify_write(r.part, r.offset, r.data.as_ref().unwrap(), 4096, tomb), WriteKind::Clean))
}

/// Reopen a crash image and judge every key. Returns the reopened sim for a possible second cycle.
pub fn dump_image(cfg: &HybCfg, image: &[Vec<u8>]) {
    let first_block = if cfg.tombstone { 1 } else { 0 };
    for (pi, part) in image.iter().enumerate() {
        if pi < first_block {
            eprintln!("  part {pi}: tombstones {:?}", crate::fmtparse::parse_tombstone_page(&part[..4096.min(part.len())]));
            continue;
        }
        let blobs = crate::fmtparse::walk_block(part, cfg.blob_index_size);
        let mut desc = vec![];
        for b in &blobs {
            for ix in &b.indices {
                let e = crate::fmtparse::parse_entry(&part[b.offset + ix.offset..]);
                let ver = e.as_ref().and_then(|e| e.value.as_ref()).map(|v| crate::hval::decode_value(v));
                desc.push(format!("[blob@{} off {} len {} seq {} hash {} -> {:?}]", b.offset, ix.offset, ix.len, ix.sequence, ix.hash, ver));
            }
        }
        eprintln!("  part {pi}: {}", desc.join(" "));
    }
}

fn judge_snapshot(cfg: &HybCfg, snap: &Snapshot, failures: &mut Vec<Failure>, stats: &mut Stats) -> Option<HybSim> {
    if std::env::var("VERIF_DUMP").is_ok() {
        eprintln!("SNAPSHOT {} reclaimed={}", snap.label, snap.reclaimed);
        dump_image(cfg, &snap.image);
    }
    let mut cfg2 = cfg.clone();
    cfg2.hold_io = false;
    let (mut sim, ok) = HybSim::from_image(cfg2, snap.image.clone(), foyer::RecoverMode::Quiet);
    stats.reopens += 1;
    if !ok {
        failures.push(Failure::new("open-fails-after-crash", format!("{}: opening the store on the crash image returned an error", snap.label)));
        return None;
    }
    sim.set_next_version(snap.next_version + 1000);
    // durability failures only count if no block is reclaimed after the restart either (a full device starts
    // reclaiming as soon as it is opened)
    let mut durability: Vec<Failure> = vec![];
    for (key, h) in &snap.hist {
        let out = match sim.raw_get(*key) {
            Ok(o) => o,
            Err(_) => {
                failures.push(Failure::new("lookup-hangs-after-crash", format!("{}: get({key}) never resolves", snap.label)));
                continue;
            }
        };
        // validity
        let got: Option<u64> = match &out {
            LookupOut::Miss => None,
            LookupOut::Err(e) => {
                failures.push(Failure::new(format!("lookup-error-after-crash:{e}"), format!("{}: get({key}) = Err({e})", snap.label)));
                continue;
            }
            LookupOut::Hit { decoded, len, bytes_head, .. } => match decoded {
                Decoded::Valid { key: k2, version } if k2 == key && h.versions.iter().any(|(v, _)| v == version) => Some(*version),
                Decoded::Tiny { .. } => h.versions.iter().find(|(v, l)| l == len && is_tiny_of(bytes_head, *key, *v)).map(|(v, _)| *v),
                other => {
                    failures.push(Failure::new(
                        "invalid-value-after-crash",
                        format!("{}: get({key}) returned {other:?}, which is not a value that was ever inserted for that key", snap.label),
                    ));
                    continue;
                }
            },
        };
        if matches!(out, LookupOut::Hit { .. }) && got.is_none() {
            failures.push(Failure::new("invalid-value-after-crash", format!("{}: get({key}) returned a value that matches no inserted version", snap.label)));
            continue;
        }
        if got.is_some() {
            stats.hits += 1;
        }
        // durability (only while no block has been reclaimed, and only if the key's latest op is acknowledged)
        if snap.reclaimed {
            continue;
        }
        if let (Some((ls, _)), Some((as_, aop))) = (&h.latest, &h.acked) {
            if ls == as_ {
                stats.acked_keys += 1;
                match aop {
                    LastOp::Insert(v) => match got {
                        Some(g) if g >= *v => {}
                        Some(g) => durability.push(Failure::new(
                            "acknowledged-insert-older-version-after-crash",
                            format!("{}: key {key}: insert of version {v} was acknowledged as flushed before the crash, recovery returns older version {g}", snap.label),
                        )),
                        None => durability.push(Failure::new(
                            if snap.torn { "acknowledged-insert-lost-after-torn-write" } else { "acknowledged-insert-lost-after-crash" },
                            format!("{}: key {key}: insert of version {v} was acknowledged as flushed before the crash (no block reclaimed), recovery returns a miss", snap.label),
                        )),
                    },
                    LastOp::Delete => {
                        if cfg.tombstone {
                            if let Some(g) = got {
                                durability.push(Failure::new(
                                    "acknowledged-delete-undone-after-crash",
                                    format!("{}: key {key}: delete was acknowledged as flushed (tombstone log on) and is the key's latest op, recovery returns version {g}", snap.label),
                                ));
                            }
                        }
                    }
                }
            }
        }
    }
    if !durability.is_empty() {
        if reclaimed_so_far(&mut sim, cfg.tombstone) {
            stats.reclaim = true;
        } else {
            failures.extend(durability);
        }
    }
    Some(sim)
}

#[derive(Default)]
struct Stats {
    reopens: usize,
    hits: usize,
    acked_keys: usize,
    torn_images: usize,
    mid_batch_points: usize,
    reclaim: bool,
    cycles: usize,
}

pub fn exec_c04(case: &CCase) -> CaseReport {
    let cfg = cfg_of(case);
    let mut run = Runner {
        woi: case.write_on_insertion,
        sim: HybSim::new(cfg.clone()),
        hist: BTreeMap::new(),
        opseq: 0,
        waits: vec![],
        writes_done: 0,
    };
    let mut snaps: Vec<Snapshot> = vec![];
    let mut stats = Stats::default();
    for (i, op) in case.ops.iter().enumerate() {
        let wrote = run.apply(op);
        if wrote {
            let reclaimed = reclaimed_so_far(&mut run.sim, case.tombstone);
            stats.reclaim |= reclaimed;
            let pending = run.sim.disk.pending();
            let next_version = run.hist.values().flat_map(|h| h.versions.iter().map(|(v, _)| *v)).max().unwrap_or(0);
            if pending.iter().any(|p| p.kind == IoKind::Write) {
                stats.mid_batch_points += 1;
            }
            snaps.push(Snapshot {
                image: run.sim.crash_image(&[]),
                hist: run.hist.clone(),
                label: format!("crash after device write #{} (op {i})", run.writes_done),
                torn: false,
                reclaimed,
                next_version,
            });
            // tears of each in-flight write
            for (pi, p) in pending.iter().enumerate() {
                if p.kind != IoKind::Write {
                    continue;
                }
                let pages = p.len / 4096;
                let masks: Vec<u64> = if pages <= 3 {
                    (1..(1u64 << pages) - 1).collect()
                } else {
                    case.tear_masks.iter().map(|m| m & ((1u64 << pages.min(63)) - 1)).filter(|m| *m != 0).collect()
                };
                for m in masks.into_iter().take(6) {
                    stats.torn_images += 1;
                    snaps.push(Snapshot {
                        image: run.sim.crash_image(&[(pi, m)]),
                        hist: run.hist.clone(),
                        label: format!("crash after device write #{} (op {i}) with pending write {pi} (partition {}, offset {}, {} pages) torn to page mask {m:#b}", run.writes_done, p.part, p.offset, pages),
                        torn: true,
                        reclaimed,
                        next_version,
                    });
                }
            }
        }
    }
    let _ = run.sim.finish();
    let mut failures = vec![];
    let picks: Vec<usize> = if snaps.is_empty() { vec![] } else { case.cycle_picks.iter().map(|p| midx(*p, snaps.len())).collect() };
    for (si, snap) in snaps.iter().enumerate() {
        let sim = judge_snapshot(&cfg, snap, &mut failures, &mut stats);
        // restart cycle: new versions written after the restart supersede everything from before it
        if let (Some(mut sim), true) = (sim, picks.contains(&si)) {
            stats.cycles += 1;
            let mut run2 = Runner {
                woi: case.write_on_insertion,
                sim: {
                    sim.disk.set_hold(true);
                    sim
                },
                hist: snap.hist.clone(),
                opseq: 1_000_000,
                waits: vec![],
                writes_done: 0,
            };
            // acknowledgements from before the crash say nothing about the new run
            for h in run2.hist.values_mut() {
                h.acked = None;
                h.latest = None;
            }
            for op in &case.ops2 {
                run2.apply(op);
            }
            // flush everything of the new run and read back: keys written in the new run must return that version
            run2.sim.disk.set_hold(false);
            run2.sim.raw_evict_all();
            if run2.sim.raw_wait().is_err() {
                failures.push(Failure::new(
                    "wait-hangs-after-restart",
                    format!("{} then restart cycle: wait() never resolves although all device io completes (writers cannot obtain a clean block)", snap.label),
                ));
                let _ = run2.sim.finish();
                continue;
            }
            let reclaimed2 = reclaimed_so_far(&mut run2.sim, case.tombstone);
            let (sb, sc) = run2.sim.shed_counters();
            for (key, h) in run2.hist.clone() {
                if let Some((_, LastOp::Insert(v))) = &h.latest {
                    match run2.sim.raw_get(key) {
                        Ok(LookupOut::Hit { decoded: Decoded::Valid { key: k2, version }, .. }) if k2 == key && version == *v => {}
                        Ok(LookupOut::Miss) if reclaimed2 || sb > 0 || sc > 0 => {}
                        Ok(other) => {
                            // the known multi-block-batch finding (shared with C09 / C01), identified from the device log
                            let stale = match &other {
                                LookupOut::Hit { decoded: Decoded::Valid { key: k2, version }, .. } if *k2 == key => Some(*version),
                                _ => None,
                            };
                            let log: Vec<crate::simdev::LogRec> = run2.sim.full_log().into_iter().map(|(_, r)| r).collect();
                            let known = stale
                                .map(|st| crate::hyboracle::older_written_after_newer_in(log.iter(), 4096, if case.tombstone { Some(0) } else { None }, key, st))
                                .unwrap_or(false);
                            failures.push(Failure::new(
                                if known { "stale-entry-after-reuse+both-versions-in-one-multi-block-batch" } else { "post-restart-write-not-superseding" },
                                format!("{} then restart cycle: key {key} was inserted with version {v} after the restart and flushed, but get({key}) = {other:?}", snap.label),
                            ))
                        }
                        Err(_) => failures.push(Failure::new("lookup-hangs-after-crash", format!("{}: restart cycle get({key}) never resolves", snap.label))),
                    }
                }
            }
            // and once more across a crash of the new run (everything flushed => must survive, no reclaim)
            if !reclaimed2 && sb == 0 && sc == 0 {
                let image = run2.sim.crash_image(&[]);
                let next_version = run2.hist.values().flat_map(|h| h.versions.iter().map(|(v, _)| *v)).max().unwrap_or(0);
                let mut hist = run2.hist.clone();
                for h in hist.values_mut() {
                    h.acked = h.latest.clone();
                    h.submitted = true;
                }
                let snap2 = Snapshot {
                    image,
                    hist,
                    label: format!("{} + second cycle crash after flush", snap.label),
                    torn: false,
                    reclaimed: snap.reclaimed,
                    next_version,
                };
                let _ = judge_snapshot(&cfg, &snap2, &mut failures, &mut stats).map(|s| s.finish());
            }
            let _ = run2.sim.finish();
        }
    }
    let mut classes: Vec<&'static str> = vec![];
    if stats.torn_images > 0 {
        classes.push("torn-write-images");
    }
    if stats.mid_batch_points > 0 {
        classes.push("crash-with-writes-in-flight");
    }
    if stats.acked_keys > 0 {
        classes.push("acknowledged-keys-judged");
    }
    if stats.reclaim {
        classes.push("reclaim(validity-only)");
    }
    if stats.cycles > 0 {
        classes.push("restart-cycle");
    }
    if case.tombstone {
        classes.push("tombstone-log");
    }
    classes.push(if case.write_on_insertion { "write-on-insertion" } else { "write-on-eviction" });
    let nontrivial = stats.acked_keys > 0 && (stats.torn_images > 0 || stats.mid_batch_points > 0);
    let mut rep = crate::hybchecks::split_known("C04", failures, nontrivial, classes, false);
    rep.nontrivial = nontrivial;
    CRASH_IMAGES.fetch_add(stats.reopens as u64, std::sync::atomic::Ordering::Relaxed);
    rep
}

pub static CRASH_IMAGES: std::sync::atomic::AtomicU64 = std::sync::atomic::AtomicU64::new(0);

pub fn check_c04(tier: Tier, seed: u64) -> i32 {
    let mut check = Check::new("C04", "fault_enumeration", tier, seed);
    check.rule = "workloads of inserts / overwrites / deletes / memory evictions / wait() on HybridCache over the simulated device with held io and a generated completion order (both policies, tombstone log on/off, 1-2 flushers; 16 blocks = nothing reclaimed, 4-5 blocks = reclaim happens, validity only). Crash points are ENUMERATED: after every completed device write the image is snapshotted, and for every write in flight at that moment every page-subset tear (all 2^p-2 subsets for p <= 3 pages, generated masks beyond). Each crash image is reopened in quiet recovery mode and every key read: open succeeds; every key is a miss or a bit-exact really-inserted version of that key; with no reclaim, a key whose latest op was acknowledged by a resolved wait() reads as that version or newer (never a miss, never older), an acknowledged delete with the tombstone log reads as a miss. Selected images get a restart cycle: a second workload, flush, read back (new versions supersede), crash again and re-judge. Non-trivial = a case with acknowledged keys judged on images taken with writes in flight or torn; evaluations = workloads, crash_images = reopened images.".into();
    check.assumptions = vec![
        "blob index is one page (the default), so a page-granular tear cannot split an index rewrite".into(),
        "the device applies each completed write atomically at completion time and loses writes that were in flight (no reordering of completed writes)".into(),
    ];
    let cases = tier.pick(15_000, 400_000);
    check.run_random("random", cases, ccase, exec_c04);
    check.set_extra("crash_images_reopened", serde_json::json!(CRASH_IMAGES.load(std::sync::atomic::Ordering::Relaxed)));
    check.finish()
}
