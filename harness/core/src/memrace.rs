//! memrace: C02 — the in-memory cache is linearizable per key under concurrent use.
//!
//! A generated *program* (2..4 threads x a few ops over 2..3 keys) is executed on real OS threads against one
//! `foyer::Cache`. Two execution modes:
//!
//! * **sched** — the harness owns the schedule. foyer (feature `verif`) calls a schedule point before every shard
//!   critical section and right after the last reference of a handle is released; the installed hook hands a baton
//!   from thread to thread, so exactly one program thread runs at a time and the order of critical sections is the
//!   generated `schedule` (a list of small choice indices; 0 = keep running the current thread). Runs are a pure
//!   function of (code, program, schedule) and replay exactly. Small programs are additionally enumerated over *all*
//!   schedules up to a preemption bound.
//! * **free** — the same programs on free-running threads with seeded jitter at the same schedule points; the OS owns
//!   the schedule, the recorded history is what is judged.
//!
//! Oracle: every op is stamped (invoke / response) from one global SeqCst counter and its result recorded; per key
//! the recorded history must have a linearization (Wing-Gong search with memoisation) against the sequential
//! specification "register over {absent} U versions that may become absent spontaneously (eviction)". Every handle
//! obtained is validated (key, embedded key, version, every payload byte) when obtained, on demand, and at the end.

use std::{
    cell::RefCell,
    collections::{BTreeMap, HashSet},
    future::Future,
    pin::Pin,
    sync::{
        Arc, Condvar, Mutex,
        atomic::{AtomicU64, Ordering},
    },
    task::{Context, Poll, Waker},
};

use foyer::{Cache, CacheBuilder, CacheEntry};
use proptest::prelude::*;
use serde::{Deserialize, Serialize};
use serde_json::json;

use crate::{
    common::{CaseReport, Check, Failure, Tier, guarded},
    hasher::{HashSpec, SpecHasher},
    memchecks::algo_strategy,
    memsim::Algo,
};

// ---------------------------------------------------------------------------------------------------------------
// case description
// ---------------------------------------------------------------------------------------------------------------

#[derive(Clone, Debug, Serialize, Deserialize, PartialEq, Eq)]
pub struct RCfg {
    pub algo: Algo,
    pub capacity: usize,
    pub shards: usize,
    pub universe: u8,
}

#[derive(Clone, Debug, Serialize, Deserialize, PartialEq, Eq)]
pub enum ROp {
    Insert { k: u8, w: u8, hold: bool },
    Remove { k: u8, hold: bool },
    Get { k: u8, hold: bool },
    Contains { k: u8 },
    Touch { k: u8 },
    /// get_or_fetch whose origin yields a fresh version of k
    Fetch { k: u8, w: u8, hold: bool },
    Clear,
    Resize { c: u8 },
    EvictAll,
    /// drop the i-th handle this thread holds (monotone index; no-op without handles)
    DropHandle { i: u16 },
    /// re-read every handle this thread holds
    CheckHandles,
}

#[derive(Clone, Debug, Serialize, Deserialize, PartialEq, Eq)]
pub enum Mode {
    /// harness-owned schedule
    Sched,
    /// enumerate all schedules with at most `preemptions` preemptions (capped at `cap` executions)
    SchedAll { preemptions: u8, cap: u32 },
    /// free-running threads, `runs` executions
    Free { runs: u16 },
}

#[derive(Clone, Debug, Serialize, Deserialize)]
pub struct RCase {
    pub cfg: RCfg,
    pub program: Vec<Vec<ROp>>,
    /// choice indices (0 = continue with the current thread / the next one when it is waiting)
    pub schedule: Vec<u16>,
    pub mode: Mode,
}

// ---------------------------------------------------------------------------------------------------------------
// values
// ---------------------------------------------------------------------------------------------------------------

pub struct RVal {
    pub key: u64,
    pub ver: u64,
    pub w: usize,
    pub bytes: Vec<u8>,
}

fn fill_byte(key: u64, ver: u64, i: usize) -> u8 {
    let x = (key.wrapping_mul(0x9E37_79B9_7F4A_7C15) ^ ver.wrapping_mul(0xC2B2_AE3D_27D4_EB4F)).wrapping_add(i as u64 * 0x1000_0000_01B3);
    (x ^ (x >> 29) ^ (x >> 47)) as u8
}

impl RVal {
    pub fn new(key: u64, ver: u64, w: usize) -> Self {
        let len = 8 + ((ver as usize).wrapping_mul(7) + key as usize) % 41;
        Self {
            key,
            ver,
            w,
            bytes: (0..len).map(|i| fill_byte(key, ver, i)).collect(),
        }
    }
    pub fn valid(&self) -> bool {
        let len = 8 + ((self.ver as usize).wrapping_mul(7) + self.key as usize) % 41;
        self.bytes.len() == len && self.bytes.iter().enumerate().all(|(i, b)| *b == fill_byte(self.key, self.ver, i))
    }
}

/// version written by op `i` of thread `t` (unique per program position; never 0)
pub fn ver_of(t: usize, i: usize) -> u64 {
    ((t as u64 + 1) << 8) | (i as u64 + 1)
}

type RCache = Cache<u64, RVal, SpecHasher>;
type REntry = CacheEntry<u64, RVal, SpecHasher>;

pub fn build_cache(cfg: &RCfg) -> RCache {
    CacheBuilder::new(cfg.capacity)
        .with_shards(cfg.shards)
        .with_eviction_config(cfg.algo.eviction_config())
        .with_hash_builder(SpecHasher::new(HashSpec::Identity))
        .with_weighter(|_k: &u64, v: &RVal| v.w)
        .build()
}

// ---------------------------------------------------------------------------------------------------------------
// schedule control
// ---------------------------------------------------------------------------------------------------------------

const NONE: usize = usize::MAX;
const STEP_LIMIT: u32 = 20_000;

struct SState {
    current: usize,
    done: Vec<bool>,
    choices: Vec<u16>,
    pos: usize,
    /// (number of options, option taken) for every decision with more than one option
    trace: Vec<(u8, u8)>,
    steps: u32,
    aborted: bool,
    bound: Option<u32>,
    preemptions: u32,
    switches: u32,
}

pub struct Sched {
    st: Mutex<SState>,
    cv: Condvar,
}

impl Sched {
    fn new(threads: usize, choices: Vec<u16>, bound: Option<u32>) -> Self {
        Self {
            st: Mutex::new(SState {
                current: NONE,
                done: vec![false; threads],
                choices,
                pos: 0,
                trace: vec![],
                steps: 0,
                aborted: false,
                bound,
                preemptions: 0,
                switches: 0,
            }),
            cv: Condvar::new(),
        }
    }

    /// Decide who runs next. `from` = the deciding thread (NONE for the initial decision), `waiting` = the deciding
    /// thread cannot make progress by itself (option 0 is then the next thread instead of itself), `leaving` = it has
    /// finished.
    fn decide(s: &mut SState, from: usize, waiting: bool, leaving: bool) -> usize {
        let n = s.done.len();
        let mut order = Vec::with_capacity(n);
        let start = if from == NONE { 0 } else if waiting || leaving { from + 1 } else { from };
        for d in 0..n {
            let t = (start + d) % n;
            if !s.done[t] {
                order.push(t);
            }
        }
        if order.is_empty() {
            return NONE;
        }
        // a preemption = taking the baton away from a thread that could continue
        let preemptive = from != NONE && !waiting && !leaving;
        let mut options = order.len();
        if preemptive && s.bound.map(|b| s.preemptions >= b).unwrap_or(false) {
            options = 1;
        }
        let mut pick = 0;
        if options > 1 {
            let c = s.choices.get(s.pos).copied().unwrap_or(0) as usize;
            s.pos += 1;
            pick = c.min(options - 1);
            s.trace.push((options as u8, pick as u8));
            if preemptive && pick != 0 {
                s.preemptions += 1;
            }
        }
        order[pick]
    }

    fn point(&self, me: usize, waiting: bool) {
        let mut s = self.st.lock().unwrap();
        if s.aborted {
            return;
        }
        s.steps += 1;
        if s.steps > STEP_LIMIT {
            s.aborted = true;
            self.cv.notify_all();
            return;
        }
        let next = Self::decide(&mut s, me, waiting, false);
        if next != me {
            s.switches += 1;
            s.current = next;
            self.cv.notify_all();
            while s.current != me && !s.aborted {
                s = self.cv.wait(s).unwrap();
            }
        }
    }

    fn start(&self, me: usize) {
        let mut s = self.st.lock().unwrap();
        while s.current != me && !s.aborted {
            s = self.cv.wait(s).unwrap();
        }
    }

    fn finish(&self, me: usize) {
        let mut s = self.st.lock().unwrap();
        s.done[me] = true;
        if s.aborted {
            return;
        }
        let next = Self::decide(&mut s, me, false, true);
        s.current = next;
        self.cv.notify_all();
    }

    fn kick_off(&self) {
        let mut s = self.st.lock().unwrap();
        let next = Self::decide(&mut s, NONE, false, false);
        s.current = next;
        self.cv.notify_all();
    }
}

enum Ctl {
    Sched { me: usize, sched: Arc<Sched> },
    Free { rng: u64 },
}

thread_local! {
    static CTL: RefCell<Option<Ctl>> = const { RefCell::new(None) };
}

fn ctl_point(waiting: bool) {
    // take the controller out while blocking so that a nested call cannot observe a borrowed RefCell
    let ctl = CTL.with(|c| c.borrow_mut().take());
    let Some(mut ctl) = ctl else { return };
    match &mut ctl {
        Ctl::Sched { me, sched } => sched.point(*me, waiting),
        Ctl::Free { rng } => {
            // xorshift jitter: mostly nothing, sometimes a yield, sometimes a short or long spin
            let mut x = *rng;
            x ^= x << 13;
            x ^= x >> 7;
            x ^= x << 17;
            *rng = x;
            match x & 15 {
                0 | 1 => std::thread::yield_now(),
                2 | 3 => {
                    for _ in 0..((x >> 8) & 127) {
                        std::hint::spin_loop();
                    }
                }
                4 => {
                    for _ in 0..((x >> 8) & 4095) {
                        std::hint::spin_loop();
                    }
                }
                _ => {}
            }
            if waiting {
                std::thread::yield_now();
            }
        }
    }
    CTL.with(|c| *c.borrow_mut() = Some(ctl));
}

fn hook(_site: &'static str) {
    ctl_point(false)
}

pub fn install_hook() {
    foyer_memory::verif::set_sched_hook(hook);
}

// ---------------------------------------------------------------------------------------------------------------
// execution
// ---------------------------------------------------------------------------------------------------------------

#[derive(Clone, Debug, Serialize, Deserialize, PartialEq, Eq)]
pub enum RRet {
    Unit,
    Inserted,
    Got(Option<u64>),
    Bool(bool),
    Removed(Option<u64>),
    /// get_or_fetch: Ok(version returned) / Err(text); `origin_done` = stamp at which this call's own origin future
    /// produced its value (0 = it never ran to completion)
    Fetched {
        ret: Result<u64, String>,
        origin_done: u64,
        /// stamp at which this call's own origin future was first polled (0 = never)
        #[serde(default)]
        origin_start: u64,
    },
}

#[derive(Clone, Debug, Serialize, Deserialize)]
pub struct Rec {
    pub t: usize,
    pub i: usize,
    pub op: ROp,
    pub invoke: u64,
    pub response: u64,
    pub ret: RRet,
}

pub struct Exec {
    pub recs: Vec<Rec>,
    /// handle / value integrity problems and foreign values (violations by themselves)
    pub bad: Vec<String>,
    pub panics: Vec<Failure>,
    pub trace: Vec<(u8, u8)>,
    pub aborted: bool,
    pub switches: u32,
}

struct Shared {
    cache: RCache,
    clock: Arc<AtomicU64>,
    universe: u8,
}

impl Shared {
    fn stamp(&self) -> u64 {
        self.clock.fetch_add(1, Ordering::SeqCst) + 1
    }
}

fn check_entry(e: &REntry, k: u64, what: &str, bad: &mut Vec<String>) -> u64 {
    let v = e.value();
    if *e.key() != k || v.key != k {
        bad.push(format!("{what}: asked for key {k}, got an entry with key {} holding a value of key {} version {:#x}", e.key(), v.key, v.ver));
    } else if !v.valid() {
        bad.push(format!("{what}: value of key {k} version {:#x} does not validate (payload changed)", v.ver));
    }
    if e.weight() != v.w {
        bad.push(format!("{what}: weight() {} differs from the weight {} the entry was inserted with", e.weight(), v.w));
    }
    v.ver
}

struct PollOnce<'a, F: Future + Unpin>(&'a mut F);
impl<F: Future + Unpin> Future for PollOnce<'_, F> {
    type Output = Poll<F::Output>;
    fn poll(mut self: Pin<&mut Self>, cx: &mut Context<'_>) -> Poll<Self::Output> {
        Poll::Ready(Pin::new(&mut *self.0).poll(cx))
    }
}

type Dones = Vec<(usize, Arc<AtomicU64>)>;

fn run_thread(t: usize, ops: &[ROp], sh: &Shared, rt: Option<&tokio::runtime::Runtime>, free_handle: Option<&tokio::runtime::Handle>) -> (Vec<Rec>, Vec<String>, Dones) {
    let mut recs = Vec::with_capacity(ops.len());
    let mut dones: Dones = vec![];
    let mut bad = vec![];
    let mut handles: Vec<(REntry, u64, u64)> = vec![];
    let cache = &sh.cache;
    for (i, op) in ops.iter().enumerate() {
        let invoke = sh.stamp();
        let ret = match op {
            ROp::Insert { k, w, hold } => {
                let k = *k as u64;
                let e = cache.insert(k, RVal::new(k, ver_of(t, i), *w as usize));
                let v = check_entry(&e, k, "insert", &mut bad);
                if v != ver_of(t, i) {
                    bad.push(format!("insert: returned handle holds version {v:#x}, inserted {:#x}", ver_of(t, i)));
                }
                if *hold {
                    handles.push((e, k, v));
                }
                RRet::Inserted
            }
            ROp::Remove { k, hold } => {
                let k = *k as u64;
                match cache.remove(&k) {
                    None => RRet::Removed(None),
                    Some(e) => {
                        let v = check_entry(&e, k, "remove", &mut bad);
                        if *hold {
                            handles.push((e, k, v));
                        }
                        RRet::Removed(Some(v))
                    }
                }
            }
            ROp::Get { k, hold } => {
                let k = *k as u64;
                match cache.get(&k) {
                    None => RRet::Got(None),
                    Some(e) => {
                        let v = check_entry(&e, k, "get", &mut bad);
                        if *hold {
                            handles.push((e, k, v));
                        }
                        RRet::Got(Some(v))
                    }
                }
            }
            ROp::Contains { k } => RRet::Bool(cache.contains(&(*k as u64))),
            ROp::Touch { k } => RRet::Bool(cache.touch(&(*k as u64))),
            ROp::Fetch { k, w, hold } => {
                let k = *k as u64;
                let ver = ver_of(t, i);
                let done = Arc::new(AtomicU64::new(0));
                let d2 = done.clone();
                let started = Arc::new(AtomicU64::new(0));
                let s2 = started.clone();
                let val = RVal::new(k, ver, *w as usize);
                let clock = sh.clock.clone();
                let _guard = rt.map(|r| r.enter()).or_else(|| free_handle.map(|h| h.enter()));
                let mut fut = Box::pin(cache.get_or_fetch(&k, move || async move {
                    s2.store(clock.fetch_add(1, Ordering::SeqCst) + 1, Ordering::SeqCst);
                    ctl_point(false);
                    d2.store(clock.fetch_add(1, Ordering::SeqCst) + 1, Ordering::SeqCst);
                    Ok::<_, anyhow::Error>(val)
                }));
                let res = if let Some(rt) = rt {
                    let mut cx = Context::from_waker(Waker::noop());
                    let mut spins = 0u32;
                    loop {
                        if let Poll::Ready(r) = fut.as_mut().poll(&mut cx) {
                            break r;
                        }
                        // let the fetch task spawned on this thread's runtime run
                        rt.block_on(tokio::task::yield_now());
                        if let Poll::Ready(r) = rt.block_on(PollOnce(&mut fut)) {
                            break r;
                        }
                        spins += 1;
                        if spins > STEP_LIMIT {
                            break Err(foyer::Error::new(foyer::ErrorKind::External, "harness: caller never resolved (step limit)"));
                        }
                        ctl_point(true);
                    }
                } else {
                    free_handle.expect("free mode runtime").block_on(fut)
                };
                let origin_done = done.load(Ordering::SeqCst);
                dones.push((i, done.clone()));
                match res {
                    Ok(e) => {
                        let v = check_entry(&e, k, "get_or_fetch", &mut bad);
                        if *hold {
                            handles.push((e, k, v));
                        }
                        RRet::Fetched { ret: Ok(v), origin_done, origin_start: started.load(Ordering::SeqCst) }
                    }
                    Err(e) => RRet::Fetched { ret: Err(format!("{e}").chars().take(160).collect()), origin_done, origin_start: started.load(Ordering::SeqCst) },
                }
            }
            ROp::Clear => {
                cache.clear();
                RRet::Unit
            }
            ROp::Resize { c } => {
                let _ = cache.resize(*c as usize);
                RRet::Unit
            }
            ROp::EvictAll => {
                cache.evict_all();
                RRet::Unit
            }
            ROp::DropHandle { i: h } => {
                if !handles.is_empty() {
                    let idx = crate::common::midx(*h, handles.len());
                    let (e, k, v) = handles.remove(idx);
                    let got = check_entry(&e, k, "handle before drop", &mut bad);
                    if got != v {
                        bad.push(format!("held handle of key {k} changed version {v:#x} -> {got:#x}"));
                    }
                    drop(e);
                }
                RRet::Unit
            }
            ROp::CheckHandles => {
                for (e, k, v) in &handles {
                    let got = check_entry(e, *k, "held handle", &mut bad);
                    if got != *v {
                        bad.push(format!("held handle of key {k} changed version {v:#x} -> {got:#x}"));
                    }
                }
                RRet::Unit
            }
        };
        let response = sh.stamp();
        recs.push(Rec { t, i, op: op.clone(), invoke, response, ret });
    }
    // handles that are still held: validate once more at the end of the thread, then drop them
    for (e, k, v) in &handles {
        let got = check_entry(e, *k, "held handle at thread end", &mut bad);
        if got != *v {
            bad.push(format!("held handle of key {k} changed version {v:#x} -> {got:#x}"));
        }
    }
    drop(handles);
    let _ = sh.universe;
    (recs, bad, dones)
}

fn has_fetch(program: &[Vec<ROp>]) -> bool {
    program.iter().flatten().any(|o| matches!(o, ROp::Fetch { .. }))
}

type Job = Box<dyn FnOnce() + Send + 'static>;

thread_local! {
    /// executor threads owned by the calling (proptest worker) thread; reused across executions because creating
    /// threads from 16 workers at once is dominated by address-space lock contention in the kernel
    static POOL: RefCell<Vec<std::sync::mpsc::Sender<Job>>> = const { RefCell::new(vec![]) };
}

fn pool_submit(t: usize, job: Job) {
    POOL.with(|p| {
        let mut p = p.borrow_mut();
        while p.len() <= t {
            let (tx, rx) = std::sync::mpsc::channel::<Job>();
            std::thread::Builder::new()
                .stack_size(4 << 20)
                .spawn(move || {
                    while let Ok(job) = rx.recv() {
                        job();
                    }
                })
                .expect("spawn executor thread");
            p.push(tx);
        }
        p[t].send(job).expect("executor thread alive");
    });
}

/// One execution of `program`. `sched`: Some((choices, bound)) = harness-owned schedule, None = free-running.
pub fn execute(cfg: &RCfg, program: &[Vec<ROp>], sched: Option<(Vec<u16>, Option<u32>)>, jitter: u64, free_rt: Option<&tokio::runtime::Handle>) -> Exec {
    install_hook();
    let sh = Arc::new(Shared {
        cache: build_cache(cfg),
        clock: Arc::new(AtomicU64::new(0)),
        universe: cfg.universe,
    });
    let threads = program.len();
    let controlled = sched.is_some();
    let sched = sched.map(|(choices, bound)| Arc::new(Sched::new(threads, choices, bound)));
    let fetches = has_fetch(program);
    let start = Arc::new(std::sync::Barrier::new(threads));
    let (rtx, rrx) = std::sync::mpsc::channel::<(usize, Vec<Rec>, Vec<String>, Option<Failure>, Dones)>();
    for (t, ops) in program.iter().enumerate() {
        let sh = sh.clone();
        let sched = sched.clone();
        let start = start.clone();
        let ops = ops.clone();
        let rtx = rtx.clone();
        let free_rt = free_rt.cloned();
        pool_submit(
            t,
            Box::new(move || {
                let rt = if controlled && fetches {
                    Some(tokio::runtime::Builder::new_current_thread().build().expect("runtime"))
                } else {
                    None
                };
                match &sched {
                    Some(s) => {
                        CTL.with(|c| *c.borrow_mut() = Some(Ctl::Sched { me: t, sched: s.clone() }));
                        s.start(t);
                    }
                    None => {
                        CTL.with(|c| {
                            *c.borrow_mut() = Some(Ctl::Free {
                                rng: (jitter ^ (t as u64 + 1).wrapping_mul(0x9E37_79B9_7F4A_7C15)) | 1,
                            })
                        });
                        start.wait();
                    }
                }
                let r = guarded(|| run_thread(t, &ops, &sh, rt.as_ref(), free_rt.as_ref()));
                // tasks still parked on this thread's runtime (closed flights) are dropped here, before the baton
                // is handed on, so their effects stay inside this thread's turn
                let r2 = guarded(|| drop(rt));
                drop(sh);
                CTL.with(|c| *c.borrow_mut() = None);
                if let Some(s) = &sched {
                    s.finish(t);
                }
                let _ = match (r, r2) {
                    (Ok((recs, bad, dones)), Ok(())) => rtx.send((t, recs, bad, None, dones)),
                    (Err(f), _) | (_, Err(f)) => rtx.send((t, vec![], vec![], Some(f), vec![])),
                };
            }),
        );
    }
    drop(rtx);
    if let Some(s) = &sched {
        s.kick_off();
    }
    let mut per: Vec<(usize, Vec<Rec>, Vec<String>, Option<Failure>, Dones)> = vec![];
    for _ in 0..threads {
        match rrx.recv() {
            Ok(x) => per.push(x),
            Err(_) => per.push((usize::MAX, vec![], vec![], Some(Failure::new("harness-panic", "executor thread died")), vec![])),
        }
    }
    per.sort_by_key(|x| x.0);
    let mut all_dones: Vec<(usize, usize, Arc<AtomicU64>)> = vec![];
    let per: Vec<(Vec<Rec>, Vec<String>, Option<Failure>)> = per
        .into_iter()
        .map(|(t, a, b, c, d)| {
            all_dones.extend(d.into_iter().map(|(i, x)| (t, i, x)));
            (a, b, c)
        })
        .collect();
    let mut recs = vec![];
    let mut bad = vec![];
    let mut panics = vec![];
    for (r, b, p) in per {
        recs.extend(r);
        bad.extend(b);
        panics.extend(p);
    }
    // quiescent epilogue from the harness thread: one lookup per key (pseudo thread `threads`)
    if panics.is_empty() {
        let r = guarded(|| {
            let mut out = vec![];
            let mut bad2 = vec![];
            for k in 0..cfg.universe {
                let invoke = sh.stamp();
                let ret = match sh.cache.get(&(k as u64)) {
                    None => RRet::Got(None),
                    Some(e) => RRet::Got(Some(check_entry(&e, k as u64, "final get", &mut bad2))),
                };
                let response = sh.stamp();
                out.push(Rec { t: threads, i: k as usize, op: ROp::Get { k, hold: false }, invoke, response, ret });
            }
            (out, bad2)
        });
        match r {
            Ok((o, b)) => {
                recs.extend(o);
                bad.extend(b);
            }
            Err(f) => panics.push(f),
        }
    }
    // A fetch task is not synchronised with the caller that started it once that caller has been answered by someone
    // else: its origin may complete (and its value be inserted) after the call returned. Sample "did the origin ever
    // produce its value, and when" only now, after every lookup of this execution.
    for (t, i, d) in &all_dones {
        let v = d.load(Ordering::SeqCst);
        if let Some(r) = recs.iter_mut().find(|r| r.t == *t && r.i == *i) {
            if let RRet::Fetched { origin_done, .. } = &mut r.ret {
                *origin_done = v;
            }
        }
    }
    let (trace, aborted, switches) = match &sched {
        Some(s) => {
            let st = s.st.lock().unwrap();
            (st.trace.clone(), st.aborted, st.switches)
        }
        None => (vec![], false, 0),
    };
    let r = guarded(move || drop(sh));
    if let Err(f) = r {
        panics.push(f);
    }
    Exec { recs, bad, panics, trace, aborted, switches }
}

// ---------------------------------------------------------------------------------------------------------------
// oracle: per-key linearizability
// ---------------------------------------------------------------------------------------------------------------

#[derive(Clone, Debug, PartialEq, Eq)]
enum Sem {
    /// the key takes this version
    Write(u64),
    /// may take effect (or not) at any time from `invoke` on
    MaybeWrite(u64),
    /// observed this version
    Read(u64),
    /// observed absence
    Absent,
    /// observed presence of some version
    Present,
    /// removed this version
    Take(u64),
    /// makes the key absent
    Erase,
}

#[derive(Clone, Debug)]
struct KOp {
    invoke: u64,
    response: u64,
    sem: Sem,
    label: String,
}

fn key_ops(recs: &[Rec], key: u8) -> Vec<KOp> {
    let mut out = vec![];
    for r in recs {
        let label = format!("T{}#{} {:?} -> {:?} [{}..{}]", r.t, r.i, r.op, r.ret, r.invoke, r.response);
        let mut push = |sem: Sem, invoke: u64, response: u64| out.push(KOp { invoke, response, sem, label: label.clone() });
        match (&r.op, &r.ret) {
            (ROp::Insert { k, .. }, _) if *k == key => push(Sem::Write(ver_of(r.t, r.i)), r.invoke, r.response),
            (ROp::Remove { k, .. }, RRet::Removed(Some(v))) if *k == key => push(Sem::Take(*v), r.invoke, r.response),
            (ROp::Remove { k, .. }, RRet::Removed(None)) if *k == key => push(Sem::Absent, r.invoke, r.response),
            (ROp::Get { k, .. }, RRet::Got(Some(v))) if *k == key => push(Sem::Read(*v), r.invoke, r.response),
            (ROp::Get { k, .. }, RRet::Got(None)) if *k == key => push(Sem::Absent, r.invoke, r.response),
            (ROp::Contains { k } | ROp::Touch { k }, RRet::Bool(true)) if *k == key => push(Sem::Present, r.invoke, r.response),
            (ROp::Contains { k } | ROp::Touch { k }, RRet::Bool(false)) if *k == key => push(Sem::Absent, r.invoke, r.response),
            (ROp::Fetch { k, .. }, RRet::Fetched { ret, origin_done, .. }) if *k == key => {
                let own = ver_of(r.t, r.i);
                match ret {
                    Ok(v) if *v == own => push(Sem::Write(own), r.invoke, r.response),
                    other => {
                        if let Ok(v) = other {
                            push(Sem::Read(*v), r.invoke, r.response);
                        }
                        // The caller was answered by someone else: either it joined another call's flight (its own
                        // origin future is then never polled) or an explicit insert closed its flight - and the fetch
                        // task publishes its result only if the flight is still open, decided in the same critical
                        // section in which the insert closes it. Either way its own value never enters the cache: no
                        // write is modelled, so a later read of that value has no linearization.
                        let _ = origin_done;
                    }
                }
            }
            (ROp::Clear, _) => push(Sem::Erase, r.invoke, r.response),
            _ => {}
        }
    }
    out
}

/// Wing-Gong search. Returns true iff `ops` has a linearization.
fn linearizable(ops: &[KOp]) -> bool {
    let n = ops.len();
    if n == 0 {
        return true;
    }
    assert!(n <= 60, "per-key history too long for the checker");
    let required: u64 = ops.iter().enumerate().filter(|(_, o)| !matches!(o.sem, Sem::MaybeWrite(_))).fold(0, |m, (i, _)| m | (1 << i));
    let mut seen: HashSet<(u64, u64)> = HashSet::new();
    // state: (done mask, register: 0 = absent, else version)
    let mut stack = vec![(0u64, 0u64)];
    while let Some((mask, reg)) = stack.pop() {
        if mask & required == required {
            return true;
        }
        if !seen.insert((mask, reg)) {
            continue;
        }
        // an op may be linearized next iff no other pending op responded before it was invoked
        let min_resp = (0..n).filter(|i| mask & (1 << i) == 0).map(|i| ops[i].response).min().unwrap();
        for i in 0..n {
            if mask & (1 << i) != 0 || ops[i].invoke > min_resp {
                continue;
            }
            let m2 = mask | (1 << i);
            match &ops[i].sem {
                Sem::Write(v) => stack.push((m2, *v)),
                Sem::MaybeWrite(v) => {
                    stack.push((m2, *v));
                    stack.push((m2, reg));
                }
                Sem::Read(v) => {
                    if reg == *v {
                        stack.push((m2, reg))
                    }
                }
                Sem::Present => {
                    if reg != 0 {
                        stack.push((m2, reg))
                    }
                }
                // absence: the entry may have been evicted at any time before
                Sem::Absent | Sem::Erase => stack.push((m2, 0)),
                Sem::Take(v) => {
                    if reg == *v {
                        stack.push((m2, 0))
                    }
                }
            }
        }
    }
    false
}

pub struct Judged {
    pub failure: Option<Failure>,
    pub nontrivial: bool,
    pub classes: Vec<&'static str>,
}

pub fn judge(cfg: &RCfg, ex: &Exec) -> Judged {
    let mut classes = vec![];
    if let Some(p) = ex.panics.first() {
        return Judged { failure: Some(p.clone()), nontrivial: false, classes };
    }
    if ex.aborted {
        return Judged {
            failure: Some(Failure::new("harness-panic", "schedule step limit reached (an operation did not complete under the harness schedule); no verdict")),
            nontrivial: false,
            classes,
        };
    }
    if let Some(b) = ex.bad.first() {
        return Judged {
            failure: Some(Failure::new("handle-or-value-integrity", format!("{b} ({} problems)", ex.bad.len()))),
            nontrivial: false,
            classes,
        };
    }
    let mut nontrivial = false;
    for key in 0..cfg.universe {
        let ops = key_ops(&ex.recs, key);
        // non-triviality: >= 2 state-changing ops and an observing op that overlaps a state-changing op of another
        // call
        let writes: Vec<&KOp> = ops.iter().filter(|o| matches!(o.sem, Sem::Write(_) | Sem::Take(_) | Sem::Erase | Sem::MaybeWrite(_))).collect();
        let reads = ops.iter().filter(|o| matches!(o.sem, Sem::Read(_) | Sem::Absent | Sem::Present | Sem::Take(_)));
        let mut overlap = false;
        for r in reads {
            for w in &writes {
                if !std::ptr::eq(r, *w) && r.invoke < w.response && w.invoke < r.response && w.response != u64::MAX {
                    overlap = true;
                }
            }
        }
        if writes.len() >= 2 && overlap {
            nontrivial = true;
        }
        if !linearizable(&ops) {
            let mut sorted = ops.clone();
            sorted.sort_by_key(|o| o.invoke);
            let hist: Vec<String> = sorted.iter().map(|o| o.label.clone()).collect();
            return Judged {
                failure: Some(Failure::new(
                    "not-linearizable",
                    format!("key {key}: the recorded history has no linearization as a register whose reads may miss: {}", hist.join(" ; ")),
                )),
                nontrivial,
                classes,
            };
        }
    }
    if ex.recs.iter().any(|r| matches!(&r.ret, RRet::Fetched { ret: Err(_), .. })) {
        classes.push("fetch-returned-error");
    }
    if ex.recs.iter().any(|r| matches!((&r.op, &r.ret), (ROp::Fetch { .. }, RRet::Fetched { ret: Ok(v), .. }) if *v != ver_of(r.t, r.i))) {
        classes.push("fetch-answered-by-other");
    }
    if ex.switches > 0 {
        classes.push("switched");
    }
    if nontrivial {
        classes.push("overlap");
    }
    Judged { failure: None, nontrivial, classes }
}

// ---------------------------------------------------------------------------------------------------------------
// case execution (all modes)
// ---------------------------------------------------------------------------------------------------------------

thread_local! {
    /// the recorded history of the last free-running execution that failed on this thread (the reproducible unit of a
    /// free-mode failure: the verdict is a function of the history alone)
    static LAST_FREE_FAIL: RefCell<Option<(RCfg, Vec<Rec>)>> = const { RefCell::new(None) };
}

thread_local! {
    /// executions performed by the current worker thread since the last take (evidence counter)
    static EXECUTIONS: RefCell<u64> = const { RefCell::new(0) };
}

pub fn take_executions() -> u64 {
    EXECUTIONS.with(|e| std::mem::take(&mut *e.borrow_mut()))
}

fn bump() {
    EXECUTIONS.with(|e| *e.borrow_mut() += 1);
}

pub fn exec_case(case: &RCase) -> CaseReport {
    let mut rep = CaseReport::default();
    match &case.mode {
        Mode::Sched => {
            let ex = execute(&case.cfg, &case.program, Some((case.schedule.clone(), None)), 0, None);
            bump();
            let j = judge(&case.cfg, &ex);
            rep.nontrivial = j.nontrivial;
            rep.classes = j.classes;
            rep.failure = j.failure;
        }
        Mode::SchedAll { preemptions, cap } => {
            // depth-first enumeration of the schedule tree: rerun with the last incrementable decision advanced
            let mut choices: Vec<u16> = vec![];
            let mut n = 0u32;
            let mut complete = false;
            loop {
                let ex = execute(&case.cfg, &case.program, Some((choices.clone(), Some(*preemptions as u32))), 0, None);
                bump();
                n += 1;
                let j = judge(&case.cfg, &ex);
                rep.nontrivial |= j.nontrivial;
                if let Some(mut f) = j.failure {
                    f.message = format!("{} [schedule {:?}]", f.message, ex.trace.iter().map(|(_, p)| *p).collect::<Vec<_>>());
                    rep.failure = Some(f);
                    break;
                }
                // next schedule
                let mut tr = ex.trace.clone();
                while let Some((opts, pick)) = tr.pop() {
                    if pick + 1 < opts {
                        tr.push((opts, pick + 1));
                        break;
                    }
                }
                if tr.is_empty() {
                    complete = true;
                    break;
                }
                if n >= *cap {
                    break;
                }
                choices = tr.iter().map(|(_, p)| *p as u16).collect();
            }
            rep.classes.push(if complete { "all-schedules-enumerated" } else { "enumeration-capped" });
            if rep.nontrivial {
                rep.classes.push("overlap");
            }
        }
        Mode::Free { runs } => {
            let rt = if has_fetch(&case.program) {
                Some(tokio::runtime::Builder::new_multi_thread().worker_threads(2).build().expect("runtime"))
            } else {
                None
            };
            let base = crate::common::fingerprint(&(&case.cfg, &case.program));
            let mut overlaps = 0u32;
            for run in 0..*runs {
                let ex = execute(&case.cfg, &case.program, None, base ^ ((run as u64 + 1) << 32), rt.as_ref().map(|r| r.handle()));
                bump();
                let j = judge(&case.cfg, &ex);
                if j.nontrivial {
                    overlaps += 1;
                }
                for c in j.classes {
                    if !rep.classes.contains(&c) {
                        rep.classes.push(c);
                    }
                }
                if let Some(mut f) = j.failure {
                    f.message = format!("{} [free-running, run {run}]", f.message);
                    LAST_FREE_FAIL.with(|l| *l.borrow_mut() = Some((case.cfg.clone(), ex.recs.clone())));
                    rep.failure = Some(f);
                    break;
                }
            }
            rep.nontrivial = overlaps > 0;
            if let Some(rt) = rt {
                rt.shutdown_background();
            }
        }
    }
    rep
}

// ---------------------------------------------------------------------------------------------------------------
// generators
// ---------------------------------------------------------------------------------------------------------------

fn rop_strategy(universe: u8, maxw: u8, with_fetch: bool) -> impl Strategy<Value = ROp> {
    let k = prop_oneof![3 => Just(0u8), 2 => 0..universe];
    prop_oneof![
        8 => (k.clone(), 0..=maxw, prop::bool::weighted(0.3)).prop_map(|(k, w, hold)| ROp::Insert { k, w, hold }),
        3 => (k.clone(), prop::bool::weighted(0.3)).prop_map(|(k, hold)| ROp::Remove { k, hold }),
        8 => (k.clone(), prop::bool::weighted(0.5)).prop_map(|(k, hold)| ROp::Get { k, hold }),
        1 => k.clone().prop_map(|k| ROp::Contains { k }),
        1 => k.clone().prop_map(|k| ROp::Touch { k }),
        4 => (k.clone(), 0..=maxw, prop::bool::weighted(0.3)).prop_map(move |(k, w, hold)| if with_fetch { ROp::Fetch { k, w, hold } } else { ROp::Get { k, hold } }),
        1 => Just(ROp::Clear),
        1 => (0..=maxw + 2).prop_map(|c| ROp::Resize { c }),
        1 => Just(ROp::EvictAll),
        3 => any::<u16>().prop_map(|i| ROp::DropHandle { i }),
        1 => Just(ROp::CheckHandles),
    ]
}

fn rcfg_strategy() -> impl Strategy<Value = RCfg> {
    (algo_strategy(), 1usize..=6, 1usize..=4, 2u8..=3).prop_map(|(algo, capacity, shards, universe)| RCfg { algo, capacity, shards, universe })
}

fn schedule_strategy(len: usize) -> impl Strategy<Value = Vec<u16>> {
    // per case a preemption density, then choices: 0 = no preemption
    (1u32..=6).prop_flat_map(move |density| {
        prop::collection::vec(
            prop_oneof![
                (12 - density) => Just(0u16),
                density => 1u16..=3,
            ],
            0..=len,
        )
    })
}

pub fn case_strategy(min_threads: usize, max_threads: usize, max_ops: usize, mode: Mode) -> impl Strategy<Value = RCase> {
    (rcfg_strategy(), min_threads..=max_threads, any::<bool>()).prop_flat_map(move |(cfg, threads, with_fetch)| {
        let u = cfg.universe;
        let mode = mode.clone();
        (
            Just(cfg),
            prop::collection::vec(prop::collection::vec(rop_strategy(u, 2, with_fetch), 1..=max_ops), threads..=threads),
            schedule_strategy(64),
        )
            .prop_map(move |(cfg, program, schedule)| RCase {
                cfg,
                program,
                schedule: if matches!(mode, Mode::Sched) { schedule } else { vec![] },
                mode: mode.clone(),
            })
    })
}

// ---------------------------------------------------------------------------------------------------------------
// the check
// ---------------------------------------------------------------------------------------------------------------

pub fn check_c02(tier: Tier, seed: u64) -> i32 {
    install_hook();
    let mut check = Check::new("C02", "exploration", tier, seed);
    check.rule = "programs of 2-4 threads x 1-5 ops (insert / remove / get / contains / touch / get_or_fetch / clear / resize / evict_all / drop or re-read a held handle) over 2-3 keys, capacities 1-6, shards 1-4 (identity hasher: keys share and span shards), all five algorithms; executed (a) under a harness-owned schedule of shard critical sections (random schedules; for small programs every schedule up to a preemption bound), (b) on free-running threads with jitter. Oracle: per-key Wing-Gong linearizability against a register whose reads may miss + bit-exact validation of every handle. Non-trivial = some key had >= 2 state-changing ops and an observing op whose interval overlapped a state-changing op; distinct by fingerprint of (configuration, program, schedule).".into();
    check.assumptions = vec![
        "sched mode serialises program threads at schedule points outside the shard locks: it explores orders of critical sections and of the unlocked windows between them (reference release, waiter notification), not data races inside a critical section".into(),
        "free mode samples whatever interleavings the OS produces; a violation there is reproduced from the saved history, not from a seed".into(),
        "a get_or_fetch that was answered by another call may still insert its own fetched value later (the fetch task is not synchronised with its caller): modelled as an optional write from the moment its origin produced the value".into(),
    ];
    let executions = AtomicU64::new(0);
    let wrap = |c: &RCase| {
        let r = exec_case(c);
        executions.fetch_add(take_executions(), Ordering::Relaxed);
        r
    };
    let t_max = tier.pick(3, 4);
    check.run_random("sched-random", tier.pick(60_000, 3_000_000), || case_strategy(2, t_max, tier.pick(4, 5), Mode::Sched), wrap);
    check.set_extra("executions_sched_random", json!(executions.swap(0, Ordering::Relaxed)));
    check.run_random(
        "sched-all",
        tier.pick(600, 30_000),
        || case_strategy(2, 2, 2, Mode::SchedAll { preemptions: tier.pick(2, 3), cap: tier.pick(400, 4000) }),
        wrap,
    );
    check.run_random(
        "sched-all-3t",
        tier.pick(150, 8_000),
        || case_strategy(3, 3, 1, Mode::SchedAll { preemptions: tier.pick(2, 3), cap: tier.pick(400, 4000) }),
        wrap,
    );
    check.set_extra("executions_sched_all", json!(executions.swap(0, Ordering::Relaxed)));
    // free-running part: in a child process, so that memory corruption under real concurrency (a crash of the
    // process) becomes a verdict with the case that was running instead of taking this run down
    run_free_in_child(&check);
    check.finish()
}

/// `check C02-free-child`: the free-running part alone. Evidence and replays go to VERIF_OUT_ROOT (set by the parent).
pub fn check_c02_free_child(tier: Tier, seed: u64) -> i32 {
    install_hook();
    let check = Check::new("C02", "exploration", tier, seed);
    let executions = AtomicU64::new(0);
    let dir = std::env::var("C02_CHILD_DIR").unwrap_or_else(|_| "/verif/out/c02child".into());
    let free_failures: Mutex<Vec<(serde_json::Value, Failure)>> = Mutex::new(vec![]);
    let wrap = |c: &RCase| {
        // remember what is running (one file per worker thread): if the process dies, the parent reports these
        let tid = format!("{:?}", std::thread::current().id()).replace(|ch: char| !ch.is_ascii_digit(), "");
        let _ = std::fs::write(format!("{dir}/current_{tid}.json"), serde_json::to_string(c).unwrap_or_default());
        let r = exec_case(c);
        if let Some(f) = &r.failure {
            if f.signature != "harness-panic" {
                if let Some((cfg, recs)) = LAST_FREE_FAIL.with(|l| l.borrow_mut().take()) {
                    let mut ff = free_failures.lock().unwrap();
                    if ff.len() < 4 {
                        ff.push((json!({"cfg": cfg, "program": c.program, "history": recs}), f.clone()));
                    }
                }
            }
        }
        let n = executions.fetch_add(take_executions(), Ordering::Relaxed);
        // self-test of the crash path: VERIF_C02_TEST_CRASH makes this process die the way corrupted memory would
        if n > 500 && std::env::var("VERIF_C02_TEST_CRASH").is_ok() {
            unsafe { libc::raise(libc::SIGSEGV) };
        }
        r
    };
    let t_max = tier.pick(3, 4);
    check.run_random("free", tier.pick(1_500, 60_000), || case_strategy(2, t_max, tier.pick(4, 5), Mode::Free { runs: tier.pick(20, 100) }), wrap);
    check.set_extra("executions_free", json!(executions.swap(0, Ordering::Relaxed)));
    // A free-running failure need not reproduce when the program is run again (the OS owns the schedule), but the
    // verdict is a function of the recorded history alone: the history is saved and is the replay.
    if check.stats.violations.lock().unwrap().is_empty() {
        if let Some((case, f)) = free_failures.lock().unwrap().first().cloned() {
            check.violation("free-history", &case, &f);
            check.stats.inconclusive.lock().unwrap().retain(|m| !m.contains("did not fail on re-execution"));
        }
    }
    check.finish()
}

/// Replay of a recorded free-running history: judged by the same oracle, no threads involved.
pub fn replay_history(case: &serde_json::Value) -> Option<Failure> {
    let cfg: RCfg = serde_json::from_value(case["cfg"].clone()).ok()?;
    let recs: Vec<Rec> = serde_json::from_value(case["history"].clone()).ok()?;
    let ex = Exec { recs, bad: vec![], panics: vec![], trace: vec![], aborted: false, switches: 0 };
    judge(&cfg, &ex).failure
}

fn run_free_in_child(check: &Check) {
    use std::os::unix::process::ExitStatusExt;
    if !check.stats.violations.lock().unwrap().is_empty() {
        return;
    }
    let root = crate::common::out_root();
    let dir = format!("{root}/out/c02child");
    let _ = std::fs::remove_dir_all(&dir);
    let _ = std::fs::create_dir_all(format!("{dir}/evidence"));
    let exe = std::env::current_exe().unwrap_or_else(|_| "/verif/target/release/check".into());
    let out = std::process::Command::new(exe)
        .arg("C02-free-child")
        .arg("--tier")
        .arg(check.tier.name())
        .arg("--seed")
        .arg(format!("{}", check.seed))
        .env("VERIF_OUT_ROOT", &dir)
        .env("C02_CHILD_DIR", &dir)
        .output();
    let out = match out {
        Ok(o) => o,
        Err(e) => {
            check.stats.inconclusive.lock().unwrap().push(format!("cannot start the free-running child: {e}"));
            return;
        }
    };
    let text = format!("{}{}", String::from_utf8_lossy(&out.stdout), String::from_utf8_lossy(&out.stderr));
    // merge the child's evidence
    if let Ok(ev) = std::fs::read_to_string(format!("{dir}/evidence/C02.json")) {
        if let Ok(v) = serde_json::from_str::<serde_json::Value>(&ev) {
            let cov = &v["coverage"];
            check.stats.evaluations.fetch_add(cov["evaluations"].as_u64().unwrap_or(0), Ordering::Relaxed);
            check.set_extra("executions_free", cov["executions_free"].clone());
            check.set_extra("free_part", json!({"evaluations": cov["evaluations"], "distinct_nontrivial": cov["distinct_nontrivial"], "class_histogram": cov["class_histogram"], "samples": cov["samples"]}));
            if let Some(n) = cov["distinct_nontrivial"].as_u64() {
                // distinct fingerprints of the child are disjoint from the parent's (different sub-check name)
                let mut nt = check.stats.nontrivial.lock().unwrap();
                for i in 0..n {
                    nt.insert(0xF4EE_0000_0000_0000u64 ^ i);
                }
            }
        }
    }
    match (out.status.code(), out.status.signal()) {
        (Some(0), _) => {}
        (Some(1), _) => {
            // the child found a violation and wrote a replay file: adopt it
            let line = text.lines().find(|l| l.starts_with("VIOLATION ")).unwrap_or("");
            let path = line.split("replay=").nth(1).unwrap_or("").trim().to_string();
            let msg = text.lines().find(|l| l.trim_start().starts_with("violation signature=")).unwrap_or("").trim().to_string();
            if let Ok(rf) = crate::common::load_replay(&path) {
                let f = Failure::new(rf.signature.clone(), rf.message.clone());
                check.violation(&rf.sub, &rf.case, &f);
            } else {
                check.stats.inconclusive.lock().unwrap().push(format!("free-running child reported a violation but its replay file is missing: {msg}"));
            }
        }
        (Some(2), _) => {
            for l in text.lines().filter(|l| l.starts_with("INCONCLUSIVE")) {
                check.stats.inconclusive.lock().unwrap().push(format!("free-running child: {l}"));
            }
        }
        (_, Some(sig)) if sig == libc::SIGSEGV || sig == libc::SIGBUS || sig == libc::SIGILL => {
            // memory corruption while the programs below were running concurrently (the harness is safe Rust)
            let mut running = vec![];
            if let Ok(rd) = std::fs::read_dir(&dir) {
                for e in rd.filter_map(|e| e.ok()) {
                    if e.file_name().to_string_lossy().starts_with("current_") {
                        if let Ok(s) = std::fs::read_to_string(e.path()) {
                            if let Ok(c) = serde_json::from_str::<serde_json::Value>(&s) {
                                running.push(c);
                            }
                        }
                    }
                }
            }
            let f = Failure::new(
                format!("crash-under-concurrent-use:signal-{sig}"),
                format!("the process running free-running programs died with signal {sig}; {} programs were executing (saved as the replay case; re-run them to reproduce)", running.len()),
            );
            check.violation("free-crash", &json!({"running": running}), &f);
        }
        (code, sig) => {
            check.stats.inconclusive.lock().unwrap().push(format!("free-running child ended abnormally (exit {code:?}, signal {sig:?}): {}", text.lines().rev().take(3).collect::<Vec<_>>().join(" | ")));
        }
    }
}

#[allow(dead_code)]
fn _unused(_: BTreeMap<u8, u8>) {}

/// Replay of a "process died" finding: re-run every program that was executing, many times; the crash itself is the
/// reproduction (this process dies again), otherwise the ordinary oracle judges the histories.
pub fn replay_crash(case: &serde_json::Value) -> Option<Failure> {
    let mut first = None;
    if let Some(list) = case["running"].as_array() {
        for c in list {
            if let Ok(mut rc) = serde_json::from_value::<RCase>(c.clone()) {
                rc.mode = Mode::Free { runs: 2000 };
                if let Some(f) = exec_case(&rc).failure {
                    first.get_or_insert(f);
                }
            }
        }
    }
    first
}

// ---------------------------------------------------------------------------------------------------------------
// C11 under real concurrency: an insert that has returned is not overwritten / ignored by a fetch of the key
// ---------------------------------------------------------------------------------------------------------------

/// Programs of get_or_fetch / insert / get on one or two keys with ample capacity (nothing is ever evicted) and no
/// remove / clear / resize, free-running.
pub fn c11_free_case(runs: u16) -> impl Strategy<Value = RCase> {
    let op = prop_oneof![
        5 => Just(ROp::Fetch { k: 0, w: 1, hold: false }),
        5 => Just(ROp::Insert { k: 0, w: 1, hold: false }),
        2 => Just(ROp::Get { k: 0, hold: false }),
    ];
    (algo_strategy(), 2usize..=3, any::<bool>()).prop_flat_map(move |(algo, threads, two_keys)| {
        let cfg = RCfg { algo, capacity: 64, shards: 1, universe: if two_keys { 2 } else { 1 } };
        (Just(cfg), prop::collection::vec(prop::collection::vec(op.clone(), 1..=3), threads..=threads), prop::collection::vec(0u8..2, 9)).prop_map(move |(cfg, mut program, keys)| {
            // assign keys (most ops on key 0)
            let mut i = 0;
            for t in program.iter_mut() {
                for o in t.iter_mut() {
                    let k = if cfg.universe == 2 && keys[i % keys.len()] == 1 && i % 3 == 0 { 1 } else { 0 };
                    i += 1;
                    match o {
                        ROp::Fetch { k: kk, .. } | ROp::Insert { k: kk, .. } | ROp::Get { k: kk, .. } => *kk = k,
                        _ => {}
                    }
                }
            }
            RCase { cfg, program, schedule: vec![], mode: Mode::Free { runs } }
        })
    })
}

/// The clause, on one recorded execution, in the regime where a key can never become absent once inserted (ample
/// capacity, no remove / clear / evict / resize in the program):
///
///   the value x_F produced by the origin of a get_or_fetch F must not be *observed by anyone* (F itself, a caller that
///   joined F's flight, a later get / get_or_fetch hit) if an explicit insert I of the key had returned before F's
///   origin produced x_F.
///
/// Why this is exactly what foyer promises and no more: x_F is only ever delivered by F's task publishing it, which
/// requires F's flight to be still open in the publishing critical section. I's critical section precedes the publish
/// (I returned before the origin even produced its value). If it also preceded F's lookup+enqueue critical section, F's
/// lookup had to hit (the key cannot become absent) and no flight would exist; if it came after, I took and closed the
/// flight, answered its waiters with I's value, and the task must drop x_F. Either way nobody may ever see x_F.
///
/// What it deliberately does NOT demand (an earlier version did, and raised a false alarm, DESIGN section 7): that the
/// origin is not *polled* after I returned. The fetch task reads the close flag and then polls the origin without
/// holding a lock; an insert completing in that window is answered correctly (waiters get I's value, x_F is dropped in
/// `emplace`) although the origin ran for nothing. Polling an origin is not observable through the cache.
pub fn judge_c11_free(ex: &Exec) -> Option<Failure> {
    if let Some(p) = ex.panics.first() {
        return Some(p.clone());
    }
    if let Some(b) = ex.bad.first() {
        return Some(Failure::new("free:handle-or-value-integrity", b.clone()));
    }
    for f in &ex.recs {
        let (ROp::Fetch { k, .. }, RRet::Fetched { origin_start, origin_done, ret }) = (&f.op, &f.ret) else { continue };
        if *origin_done == 0 {
            continue;
        }
        let xf = ver_of(f.t, f.i);
        // an insert of the key that had returned before F's origin produced its value
        let Some(i) = ex.recs.iter().find(|i| matches!(&i.op, ROp::Insert { k: ki, .. } if ki == k) && i.response < *origin_done) else { continue };
        // anyone who observed x_F
        let seen = ex.recs.iter().find(|o| match (&o.op, &o.ret) {
            (ROp::Fetch { k: ko, .. }, RRet::Fetched { ret: Ok(v), .. }) => ko == k && *v == xf,
            (ROp::Get { k: ko, .. }, RRet::Got(Some(v))) => ko == k && *v == xf,
            _ => false,
        });
        if let Some(o) = seen {
            return Some(Failure::new(
                "free:fetch-result-observed-after-insert-returned",
                format!(
                    "insert of key {k} by T{}#{} (value {:#x}) returned at stamp {} ; the origin of get_or_fetch T{}#{} (invoked {}, answered {:?} at {}) was first polled at stamp {} and produced {:#x} at stamp {} ; that value was observed by T{}#{} ({:?} -> {:?}, invoked {} answered {}) although the key could not have become absent in between",
                    i.t, i.i, ver_of(i.t, i.i), i.response, f.t, f.i, f.invoke, ret, f.response, origin_start, xf, origin_done, o.t, o.i, o.op, o.ret, o.invoke, o.response
                ),
            ));
        }
    }
    None
}

pub fn exec_c11_free(case: &RCase) -> CaseReport {
    let mut rep = CaseReport::default();
    let Mode::Free { runs } = &case.mode else { return rep };
    let rt = tokio::runtime::Builder::new_multi_thread().worker_threads(2).build().expect("runtime");
    let base = crate::common::fingerprint(&(&case.cfg, &case.program));
    let mut overlapped = 0u32;
    let mut late_origin = 0u32;
    for run in 0..*runs {
        let ex = execute(&case.cfg, &case.program, None, base ^ ((run as u64 + 1) << 32), Some(rt.handle()));
        bump();
        // non-trivial: an insert and a fetch of the same key overlapped
        let nt = ex.recs.iter().any(|f| {
            matches!(f.op, ROp::Fetch { .. }) && ex.recs.iter().any(|i| matches!((&i.op, &f.op), (ROp::Insert { k: a, .. }, ROp::Fetch { k: b, .. }) if a == b) && i.invoke < f.response && f.invoke < i.response)
        });
        if nt {
            overlapped += 1;
        }
        // the benign window (DESIGN section 7): an origin first polled after an insert of the key had returned; legal
        // as long as nobody observes its value, which the judge below decides
        if ex.recs.iter().any(|f| match (&f.op, &f.ret) {
            (ROp::Fetch { k, .. }, RRet::Fetched { origin_start, .. }) if *origin_start != 0 => ex.recs.iter().any(|i| matches!(&i.op, ROp::Insert { k: ki, .. } if ki == k) && i.response < *origin_start),
            _ => false,
        }) {
            late_origin += 1;
        }
        if let Some(mut f) = judge_c11_free(&ex) {
            f.message = format!("{} [free-running, run {run}]", f.message);
            LAST_FREE_FAIL.with(|l| *l.borrow_mut() = Some((case.cfg.clone(), ex.recs.clone())));
            rep.failure = Some(f);
            break;
        }
    }
    rep.nontrivial = overlapped > 0;
    if overlapped > 0 {
        rep.classes.push("insert-overlaps-fetch");
    }
    if late_origin > 0 {
        rep.classes.push("origin-polled-after-insert-returned");
    }
    rt.shutdown_background();
    rep
}

/// Replay of a recorded history against the C11 clause.
pub fn replay_c11_history(case: &serde_json::Value) -> Option<Failure> {
    let recs: Vec<Rec> = serde_json::from_value(case["history"].clone()).ok()?;
    judge_c11_free(&Exec { recs, bad: vec![], panics: vec![], trace: vec![], aborted: false, switches: 0 })
}

/// Two hand-written histories that pin the oracle from both sides, judged before every campaign:
/// * the history of the false alarm of the first version of this clause (DESIGN section 7): the insert T0#1 returned
///   at 9, the fetch task of T1#0 read the close flag before that and first polled its origin at 12, the caller was
///   answered with the insert's value and the origin's value was dropped - legal, must be accepted;
/// * the same history with the caller answered by its own origin's value (what a lookup / enqueue split or a publish
///   that ignores the close flag produces) - must be rejected.
pub fn c11_free_oracle_selftest() -> Result<(), String> {
    let fetch = ROp::Fetch { k: 0, w: 1, hold: false };
    let insert = ROp::Insert { k: 0, w: 1, hold: false };
    let mk = |answer: u64, late_get: Option<u64>| {
        let mut recs = vec![
            Rec { t: 0, i: 0, op: ROp::Get { k: 0, hold: false }, invoke: 1, response: 3, ret: RRet::Got(None) },
            Rec { t: 1, i: 0, op: fetch.clone(), invoke: 2, response: 14, ret: RRet::Fetched { ret: Ok(answer), origin_done: 13, origin_start: 12 } },
            Rec { t: 0, i: 1, op: insert.clone(), invoke: 4, response: 9, ret: RRet::Inserted },
        ];
        if let Some(v) = late_get {
            recs.push(Rec { t: 0, i: 2, op: ROp::Get { k: 0, hold: false }, invoke: 15, response: 16, ret: RRet::Got(Some(v)) });
        }
        Exec { recs, bad: vec![], panics: vec![], trace: vec![], aborted: false, switches: 0 }
    };
    let (v_insert, x_fetch) = (ver_of(0, 1), ver_of(1, 0));
    if let Some(f) = judge_c11_free(&mk(v_insert, Some(v_insert))) {
        return Err(format!("the legal history (origin polled after the insert returned, its value dropped) is rejected: {}", f.message));
    }
    if judge_c11_free(&mk(x_fetch, None)).is_none() {
        return Err("a caller answered with its own origin's value after the insert had returned is accepted".into());
    }
    if judge_c11_free(&mk(v_insert, Some(x_fetch))).is_none() {
        return Err("a late lookup that sees the dropped origin value is accepted".into());
    }
    Ok(())
}

/// Run the sub-check inside `check` (property C11). A failure is saved with its recorded history.
pub fn run_c11_free(check: &Check) {
    install_hook();
    if !check.stats.violations.lock().unwrap().is_empty() {
        return;
    }
    match c11_free_oracle_selftest() {
        Ok(()) => check.set_extra("free_oracle_selftest", json!("3/3 hand-written histories judged as expected (1 legal accepted, 2 violating rejected)")),
        Err(e) => {
            check.stats.inconclusive.lock().unwrap().push(format!("free-running part skipped, its oracle fails its self-test: {e}"));
            return;
        }
    }
    let fails: Mutex<Vec<(serde_json::Value, Failure)>> = Mutex::new(vec![]);
    let executions = AtomicU64::new(0);
    let wrap = |c: &RCase| {
        let mut r = exec_c11_free(c);
        executions.fetch_add(take_executions(), Ordering::Relaxed);
        if let Some(f) = r.failure.take() {
            if let Some((cfg, recs)) = LAST_FREE_FAIL.with(|l| l.borrow_mut().take()) {
                let mut ff = fails.lock().unwrap();
                if ff.len() < 4 {
                    ff.push((json!({"cfg": cfg, "program": c.program, "history": recs}), f));
                }
            }
            // do not let proptest shrink by re-running threads: the recorded history is the finding
        }
        r
    };
    let runs = check.tier.pick(40, 200);
    check.run_random("free-insert-vs-fetch", check.tier.pick(4_000, 100_000), || c11_free_case(runs), wrap);
    check.set_extra("executions_free_insert_vs_fetch", json!(executions.load(Ordering::Relaxed)));
    if let Some((case, f)) = fails.lock().unwrap().first().cloned() {
        check.violation("free-history", &case, &f);
    }
}
