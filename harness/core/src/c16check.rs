//! C16: user callbacks (listener, weighter, memory filter, key / value destructors) run outside cache locks.
//!
//! memsim histories on a single-shard cache where every callback first asks the lock probe (feature `verif`:
//! number of shard locks / in-flight-table locks currently held — on a single thread that can only be the caller
//! itself) and, only if the probe is clear, performs a generated re-entrant operation on the same cache.

use proptest::prelude::*;
use serde::{Deserialize, Serialize};

use crate::{
    common::{CaseReport, Check, Failure, Tier},
    hasher::HashSpec,
    memchecks::{algo_strategy, op_strategy},
    memsim::{Algo, CbKind, MemCfg, MemOp, MemSim, ReOp, ReentrantPlan, Step},
};

#[derive(Clone, Debug, Serialize, Deserialize)]
pub struct C16Case {
    pub cfg: MemCfg,
    pub plan: ReentrantPlan,
    pub ops: Vec<MemOp>,
}

fn reop(universe: u8) -> impl Strategy<Value = ReOp> {
    prop_oneof![
        1 => Just(ReOp::None),
        3 => (0..universe).prop_map(ReOp::Get),
        2 => (0..universe).prop_map(ReOp::Contains),
        3 => (0..universe).prop_map(ReOp::Insert),
        2 => (0..universe).prop_map(ReOp::Remove),
    ]
}

fn c16_op(universe: u8, maxw: u8) -> impl Strategy<Value = MemOp> {
    prop_oneof![
        12 => op_strategy(universe, maxw, true),
        2 => (0..universe, 0..=maxw, any::<bool>()).prop_map(|(k, w, hold)| MemOp::FetchReady { k, w, hold }),
        2 => (0..universe).prop_map(|k| MemOp::FetchPending { k }),
        1 => (0..universe).prop_map(|k| MemOp::FetchFail { k }),
    ]
}

pub fn c16_case(max_len: usize) -> impl Strategy<Value = C16Case> {
    (algo_strategy(), 0usize..=6, 2u8..=5, 1..=max_len).prop_flat_map(|(algo, capacity, universe, len)| {
        let cfg = MemCfg {
            algo,
            capacity,
            shards: 1,
            hash: HashSpec::Identity,
            universe,
            pipe: true,
        };
        let plan = (reop(universe), reop(universe), reop(universe), reop(universe), reop(universe)).prop_map(
            |(listener, value_drop, key_drop, weighter, filter)| ReentrantPlan {
                listener,
                value_drop,
                key_drop,
                weighter,
                filter,
            },
        );
        let maxw = (capacity + 2) as u8;
        (Just(cfg), plan, prop::collection::vec(c16_op(universe, maxw), 1..=len)).prop_map(|(cfg, plan, ops)| C16Case { cfg, plan, ops })
    })
}

pub fn exec_c16(case: &C16Case) -> CaseReport {
    let trace = MemSim::run(case.cfg.clone(), Some(case.plan.clone()), &case.ops);
    if std::env::var("VERIF_DUMP").is_ok() {
        eprintln!("{}", serde_json::to_string_pretty(&trace).unwrap());
    }
    let mut failure = None;
    let mut reentered: std::collections::BTreeSet<&'static str> = Default::default();
    let mut reasons: std::collections::BTreeSet<&'static str> = Default::default();
    let mut all: Vec<(usize, &Step)> = trace.steps.iter().enumerate().collect();
    let base = trace.steps.len();
    for (i, s) in trace.final_drops.iter().enumerate() {
        all.push((base + i, s));
    }
    for (i, s) in trace.final_inserts.iter().enumerate() {
        all.push((base + trace.final_drops.len() + i, s));
    }
    all.push((base + trace.final_drops.len() + trace.final_inserts.len(), &trace.final_cache_drop));
    for (idx, st) in all {
        let opname = case.ops.get(idx).map(|o| format!("{o:?}")).unwrap_or_else(|| "epilogue".into());
        for ev in &st.events {
            reasons.insert(match ev.reason {
                crate::memsim::Reason::Evict => "evict",
                crate::memsim::Reason::Replace => "replace",
                crate::memsim::Reason::Remove => "remove",
                crate::memsim::Reason::Clear => "clear",
            });
            if ev.locked > 0 && failure.is_none() {
                failure = Some(Failure::new(
                    "listener-under-lock",
                    format!("step {idx} ({opname}): on_leave({:?}, key {}) ran while {} cache lock(s) were held by the calling thread", ev.reason, ev.key, ev.locked),
                ));
            }
        }
        for cb in &st.callbacks {
            let name = match cb.kind {
                CbKind::Listener => "listener",
                CbKind::ValueDrop => "value-drop",
                CbKind::KeyDrop => "key-drop",
                CbKind::Weighter => "weighter",
                CbKind::Filter => "filter",
            };
            if cb.reentered {
                reentered.insert(name);
            }
            if cb.locked > 0 && failure.is_none() {
                failure = Some(Failure::new(
                    format!("{name}-under-lock"),
                    format!("step {idx} ({opname}): {name} callback ran while {} cache lock(s) were held by the calling thread (a re-entrant call on the same shard would deadlock)", cb.locked),
                ));
            }
        }
    }
    let mut classes: Vec<&'static str> = vec![case.cfg.algo.name()];
    for r in &reentered {
        classes.push(match *r {
            "listener" => "reentered-from-listener",
            "value-drop" => "reentered-from-value-drop",
            "key-drop" => "reentered-from-key-drop",
            "weighter" => "reentered-from-weighter",
            _ => "reentered-from-filter",
        });
    }
    for r in &reasons {
        classes.push(match *r {
            "evict" => "leave-evict",
            "replace" => "leave-replace",
            "remove" => "leave-remove",
            _ => "leave-clear",
        });
    }
    CaseReport {
        nontrivial: reentered.len() >= 3 && reasons.len() >= 2,
        classes,
        discarded: false,
        failure,
        tolerated: vec![],
    }
}

pub fn check_c16(tier: Tier, seed: u64) -> i32 {
    let mut check = Check::new("C16", "exploration", tier, seed);
    check.rule = "memsim histories (C05/C13 alphabet + get_or_fetch with ready / failing / never-resolving origin) on a single-shard Cache for all five algorithms; listener, weighter, memory filter and the Drop of every key and value handed to the cache are harness objects that (1) read the lock probe (shard RwLock or in-flight-table Mutex held => violation, exact, no timing) and (2) only if the probe is clear perform a generated re-entrant get/contains/insert/remove on the same shard. Non-trivial = re-entrant ops were performed from >= 3 kinds of callback and >= 2 kinds of leave reason occurred; distinct by fingerprint.".into();
    check.assumptions = vec![
        "single thread: a held lock observed by the probe is held by the caller itself".into(),
        "hybrid half: all foyer tasks run on the harness thread, so a lock seen by a callback is held by its caller; multi-threaded lock-order / deadlock detection is not part of this check".into(),
    ];
    // small fixed regression shapes first (cheap): each callback kind on each leave path
    let cases = tier.pick(30_000, 600_000);
    let len = tier.pick(40, 120);
    check.run_random("random", cases, || c16_case(len), exec_c16);
    // hybrid half: the user callbacks of a HybridCache (weighter, event listener, admission filter, reinsertion
    // filter) probe the memory shard locks, the in-flight table locks and the write-queue table locks
    let cases = tier.pick(20_000, 400_000);
    let hlen = tier.pick(40, 100);
    check.run_random("hybrid", cases, || c16_hybrid_case(hlen), exec_c16_hybrid);
    check.finish()
}

#[allow(dead_code)]
fn _algos() -> Vec<Algo> {
    Algo::defaults()
}


// ---------------------------------------------------------------------------------------------------- hybrid half

pub fn c16_hybrid_case(max_len: usize) -> impl proptest::strategy::Strategy<Value = crate::hybchecks::HybCase> {
    use proptest::prelude::*;
    (crate::hybchecks::c01_case(max_len, crate::hybchecks::CfgDomain::default()), any::<bool>(), any::<bool>()).prop_map(|(mut case, small, reinsert)| {
        if small {
            // a device that wraps quickly: reclaim, reinsertion filter and block reuse happen
            case.cfg.blocks = 4;
            case.cfg.block_size = 16 * 1024;
            case.cfg.flushers = 1;
            case.cfg.clean_block_threshold = 1;
            case.cfg.buffer_pool_size = 48 * case.cfg.block_size;
            case.cfg.mem_capacity = case.cfg.mem_capacity.min(12_000);
        }
        if reinsert {
            case.cfg.reinsert = vec![1];
        }
        // drop-without-close would need the probe's clone of the cache to be released first: not generated here
        case
    })
}

pub fn exec_c16_hybrid(case: &crate::hybchecks::HybCase) -> CaseReport {
    let case = crate::hybchecks::normalize(case);
    let probe = std::sync::Arc::new(crate::hybsim::LockProbe::default());
    crate::hybsim::probe_next_sim(probe.clone());
    let trace = crate::hybsim::HybSim::run(case.cfg.clone(), &case.ops);
    let violations = probe.violations.lock().clone();
    let kinds: Vec<&'static str> = probe.kinds.lock().iter().copied().collect();
    let mut failure = None;
    if let Some(v) = violations.first() {
        let who = v.split(' ').next().unwrap_or("callback").to_string();
        failure = Some(Failure::new(format!("hybrid:{who}-under-lock"), format!("{v} ({} observations in this history)", violations.len())));
    } else if let Some(p) = &trace.panicked {
        failure = Some(Failure::new("hybrid:panic", p.clone()));
    }
    CaseReport {
        nontrivial: kinds.len() >= 3,
        classes: kinds,
        discarded: false,
        failure,
        tolerated: vec![],
    }
}
