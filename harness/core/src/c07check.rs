//! C07: what the flusher writes is exactly what recovery and lookups read back.
//!
//! (a) splitter: generated (block size, blob-index size, sequences of batches of entry lengths) drive
//!     `Buffer` / `Splitter::split` with a persistent `SplitCtx` directly (no runtime); the geometric invariants are
//!     asserted on the returned `Batch` and a virtual device is replayed from the parts, then walked by the independent
//!     format reader.
//! (b) end to end on hybsim: batches whose boundaries the history chooses (entries enqueued while the previous batch's
//!     io is held form the next batch), sizes seeking the boundaries; at every quiescent point three views must agree:
//!     the write log, the independent parse of the image, and the engine (lookups, and lookups after a reopen).

use std::{collections::BTreeMap, sync::Arc};

use foyer_common::metrics::Metrics;
use foyer_storage::verif::{Buffer, IoSliceMut, SplitCtx, Splitter};
use proptest::prelude::*;
use serde::{Deserialize, Serialize};

use crate::{
    common::{CaseReport, Check, Failure, Tier},
    fmtparse::{PAGE, align_up, parse_blob_index, parse_entry, walk_block},
    hasher::HashSpec,
    hval::Decoded,
    hybsim::{ENTRY_OVERHEAD, HybCfg, HybSim, KeyClass, LookupOut},
    memsim::Algo,
    simdev::IoKind,
};

// ------------------------------------------------------------------------------------------------ (a) splitter

#[derive(Clone, Debug, Serialize, Deserialize)]
pub struct SplitCase {
    pub block_pages: usize,
    pub index_pages: usize,
    /// each batch: entry lengths in bytes (unaligned)
    pub batches: Vec<Vec<u32>>,
}

fn entry_len(block_pages: usize, index_pages: usize) -> impl Strategy<Value = u32> {
    let max = ((block_pages - index_pages) * PAGE) as u32;
    prop_oneof![
        4 => Just(1u32),
        4 => 1u32..=PAGE as u32,
        2 => Just(PAGE as u32),
        2 => Just(PAGE as u32 + 1),
        2 => (1u32..=4).prop_map(move |p| (p * PAGE as u32).min(max)),
        1 => Just(max),
        1 => Just(max.saturating_sub(PAGE as u32) + 1),
    ]
}

pub fn split_case() -> impl Strategy<Value = SplitCase> {
    (prop_oneof![4 => Just(4usize), 4 => Just(8), 3 => Just(16), 1 => Just(180), 1 => Just(360)], 1usize..=2).prop_flat_map(|(block_pages, index_pages)| {
        let block_pages = block_pages.max(index_pages + 1);
        let many = block_pages >= 100;
        let batch = if many {
            prop_oneof![Just(169usize), Just(170), Just(171), Just(340), Just(341), 1usize..=20]
                // small entries only, so that the blob index fills up before the block does
                .prop_flat_map(move |n| prop::collection::vec(prop_oneof![Just(1u32), 1u32..=PAGE as u32, Just(PAGE as u32)], n..=n))
                .boxed()
        } else {
            prop::collection::vec(entry_len(block_pages, index_pages), 0..=12).boxed()
        };
        (Just(block_pages), Just(index_pages), prop::collection::vec(batch, 1..=6)).prop_map(|(block_pages, index_pages, batches)| SplitCase {
            block_pages,
            index_pages,
            batches,
        })
    })
}

#[derive(Default)]
struct SplitFlags {
    index_exactly_full: bool,
    block_exactly_full: bool,
    blob_continued_across_batches: bool,
    multi_block_batch: bool,
}

pub fn exec_split(case: &SplitCase) -> CaseReport {
    let block_size = case.block_pages * PAGE;
    let index_size = case.index_pages * PAGE;
    let max_entry = block_size - index_size;
    let index_capacity = (index_size - 12) / 24;
    let mut ctx = SplitCtx::new(block_size, index_size);
    let metrics = Arc::new(Metrics::noop());
    // virtual device: blocks appended as the splitter opens new ones
    let mut blocks: Vec<Vec<u8>> = vec![vec![0u8; block_size]];
    let mut expected: Vec<Vec<(u64, u64, usize, usize)>> = vec![vec![]]; // per block: (hash, seq, abs offset, len)
    let mut seq = 1u64;
    let mut flags = SplitFlags::default();
    let failure_cell: std::cell::RefCell<Option<Failure>> = std::cell::RefCell::new(None);
    let fail = |sig: &str, msg: String| {
        let mut f = failure_cell.borrow_mut();
        if f.is_none() {
            *f = Some(Failure::new(format!("splitter:{sig}"), msg));
        }
    };
    let mut last_blob_key: Option<(usize, usize)> = None; // (block, blob offset) of the last part of the previous batch
    for (bi, lens) in case.batches.iter().enumerate() {
        let total: usize = lens.iter().map(|l| align_up(*l as usize)).sum();
        let mut buffer = Buffer::new(IoSliceMut::new(total.max(PAGE)), max_entry, metrics.clone());
        let mut pushed = vec![];
        for l in lens {
            let l = (*l as usize).min(max_entry).max(1);
            // a recognisable payload: every byte = low byte of the sequence
            let slice = vec![(seq & 0xff) as u8; l];
            if buffer.push_slice(&slice, seq.wrapping_mul(0x9E37), seq) {
                pushed.push((seq.wrapping_mul(0x9E37), seq, l));
            }
            seq += 1;
        }
        let (bytes, infos) = buffer.finish();
        if infos.len() != pushed.len() {
            fail("buffer-info-count", format!("batch {bi}: buffer reports {} entries, {} were accepted", infos.len(), pushed.len()));
            break;
        }
        let batch = Splitter::split(&mut ctx, bytes.into_io_slice(), infos);
        if batch.blocks.len() > 1 {
            flags.multi_block_batch = true;
        }
        let mut it = pushed.iter();
        for (i, blk) in batch.blocks.iter().enumerate() {
            if i > 0 {
                blocks.push(vec![0u8; block_size]);
                expected.push(vec![]);
            }
            let b = blocks.len() - 1;
            for part in &blk.blob_parts {
                let blob_off = part.blob_block_offset;
                let data_off = blob_off + part.part_blob_offset;
                if blob_off % PAGE != 0 || data_off % PAGE != 0 || part.data.len() % PAGE != 0 {
                    fail("unaligned-part", format!("batch {bi} block {b}: blob at {blob_off}, data at {data_off}, len {} not page aligned", part.data.len()));
                }
                if blob_off + index_size > block_size || data_off + part.data.len() > block_size {
                    fail("part-outside-block", format!("batch {bi} block {b}: blob at {blob_off} data [{data_off}, +{}) exceeds block size {block_size}", part.data.len()));
                    continue;
                }
                if part.index.len() != index_size {
                    fail("index-size", format!("batch {bi}: index buffer has {} bytes, configured {index_size}", part.index.len()));
                    continue;
                }
                if last_blob_key == Some((b, blob_off)) && i == 0 && std::ptr::eq(part, &blk.blob_parts[0]) {
                    flags.blob_continued_across_batches = true;
                }
                // apply to the virtual device: data first, then index (as the flusher does)
                blocks[b][data_off..data_off + part.data.len()].copy_from_slice(&part.data);
                blocks[b][blob_off..blob_off + index_size].copy_from_slice(&part.index);
                let mut cursor = data_off;
                for ix in &part.indices {
                    let Some((h, s, l)) = it.next() else {
                        fail("extra-index", format!("batch {bi}: splitter produced more index records than entries"));
                        break;
                    };
                    let abs = blob_off + ix.offset as usize;
                    if ix.hash != *h || ix.sequence != *s || ix.len as usize != *l {
                        fail("index-record-mismatch", format!("batch {bi}: index record {ix:?} does not describe entry (hash {h}, seq {s}, len {l})"));
                    }
                    if abs != cursor {
                        fail("entry-position", format!("batch {bi} block {b}: entry seq {s} indexed at {abs}, data was laid out at {cursor}"));
                    }
                    if abs % PAGE != 0 || abs + align_up(*l) > block_size {
                        fail("entry-outside-block", format!("batch {bi} block {b}: entry seq {s} at [{abs}, +{}) not aligned / outside the block", align_up(*l)));
                    }
                    expected[b].push((*h, *s, abs, *l));
                    cursor += align_up(*l);
                    if abs + align_up(*l) == block_size {
                        flags.block_exactly_full = true;
                    }
                }
                if let Some(ix) = parse_blob_index(&part.index) {
                    if ix.len() == index_capacity {
                        flags.index_exactly_full = true;
                    }
                } else {
                    fail("sealed-index-unreadable", format!("batch {bi}: the sealed blob index does not verify"));
                }
                last_blob_key = Some((b, blob_off));
            }
        }
        if it.next().is_some() {
            fail("entry-dropped", format!("batch {bi}: an accepted entry is in no blob part"));
        }
    }
    // independent walk of every block must reconstruct exactly what was written
    if failure_cell.borrow().is_none() {
        for (b, img) in blocks.iter().enumerate() {
            let blobs = walk_block(img, index_size);
            let mut got = vec![];
            let mut regions: Vec<(usize, usize, String)> = vec![];
            for blob in &blobs {
                regions.push((blob.offset, blob.offset + index_size, format!("index@{}", blob.offset)));
                for ix in &blob.indices {
                    let abs = blob.offset + ix.offset;
                    got.push((ix.hash, ix.sequence, abs, ix.len));
                    regions.push((abs, abs + align_up(ix.len), format!("entry seq {}", ix.sequence)));
                }
            }
            if got != expected[b] {
                let first = got.iter().zip(expected[b].iter()).position(|(a, e)| a != e).unwrap_or(got.len().min(expected[b].len()));
                fail(
                    "scan-differs-from-written",
                    format!("block {b}: scanning reconstructs {} entries, {} were written; first difference at #{first}: scanned {:?}, written {:?}", got.len(), expected[b].len(), got.get(first), expected[b].get(first)),
                );
                break;
            }
            regions.sort();
            for w in regions.windows(2) {
                if w[0].1 > w[1].0 {
                    fail("overlap", format!("block {b}: {} [{}, {}) overlaps {} [{}, {})", w[0].2, w[0].0, w[0].1, w[1].2, w[1].0, w[1].1));
                }
            }
            // payload at the recorded position
            for (h, s, abs, l) in &expected[b] {
                let _ = h;
                if img[*abs..*abs + *l].iter().any(|x| *x != (*s & 0xff) as u8) {
                    fail("payload-not-at-recorded-position", format!("block {b}: entry seq {s} is not intact at its recorded position {abs}"));
                    break;
                }
            }
        }
    }
    let mut classes = vec![];
    if flags.index_exactly_full {
        classes.push("blob-index-exactly-full");
    }
    if flags.block_exactly_full {
        classes.push("block-exactly-full");
    }
    if flags.blob_continued_across_batches {
        classes.push("blob-continued-across-batches");
    }
    if flags.multi_block_batch {
        classes.push("batch-spans-2+-blocks");
    }
    CaseReport {
        nontrivial: flags.index_exactly_full || flags.block_exactly_full || flags.blob_continued_across_batches || flags.multi_block_batch,
        classes,
        discarded: false,
        failure: failure_cell.into_inner(),
        tolerated: vec![],
    }
}

// ------------------------------------------------------------------------------------------- (b) end to end

#[derive(Clone, Copy, Debug, Serialize, Deserialize, PartialEq, Eq)]
pub enum ESz {
    One,
    /// the entry ends `delta` bytes before / after a page boundary
    Edge { pages: u8, delta: i8 },
    /// exactly what is left in the flusher's current block (per the independent parse), plus `extra` pages
    FillBlock { extra: u8 },
    Max,
}

#[derive(Clone, Debug, Serialize, Deserialize, PartialEq, Eq)]
pub enum EOp {
    /// entries enqueued back to back while the previous batch's io is held: they form one batch
    Batch { entries: Vec<(u8, ESz)> },
    /// a run of `n` one-page entries of fresh keys (fills blob indexes)
    Run { n: u16 },
    Delete { k: u8 },
    Reopen,
}

#[derive(Clone, Debug, Serialize, Deserialize)]
pub struct E2ECase {
    pub block_kib: usize,
    pub index_pages: usize,
    pub flushers: usize,
    pub blocks: usize,
    pub ops: Vec<EOp>,
}

fn esz() -> impl Strategy<Value = ESz> {
    prop_oneof![
        2 => Just(ESz::One),
        5 => (1u8..=3, -1i8..=1).prop_map(|(pages, delta)| ESz::Edge { pages, delta }),
        3 => (0u8..=1).prop_map(|extra| ESz::FillBlock { extra }),
        1 => Just(ESz::Max),
    ]
}

pub fn e2e_case() -> impl Strategy<Value = E2ECase> {
    (
        prop_oneof![6 => Just(16usize), 4 => Just(32), 1 => Just(1024)],
        1usize..=2,
        1usize..=3,
        prop::collection::vec(
            prop_oneof![
                8 => prop::collection::vec((0u8..12, esz()), 1..=6).prop_map(|entries| EOp::Batch { entries }),
                1 => prop_oneof![Just(169u16), Just(170), Just(171), Just(341), 2u16..=30].prop_map(|n| EOp::Run { n }),
                1 => (0u8..12).prop_map(|k| EOp::Delete { k }),
                1 => Just(EOp::Reopen),
            ],
            1..=14,
        ),
    )
        .prop_map(|(block_kib, index_pages, flushers, ops)| {
            let blocks = if block_kib >= 1024 { 4 } else { 8 };
            E2ECase {
                block_kib,
                index_pages,
                flushers: flushers.min(blocks / 2 - 1).max(1),
                blocks,
                ops,
            }
        })
}

fn cfg_e2e(case: &E2ECase) -> HybCfg {
    let block_size = case.block_kib * 1024;
    HybCfg {
        write_on_insertion: true,
        algo: Algo::Fifo,
        mem_capacity: 8 << 20,
        mem_shards: 1,
        tombstone: false,
        compression: 0,
        flushers: case.flushers,
        reclaimers: 1,
        blocks: case.blocks,
        block_size,
        blob_index_size: case.index_pages * PAGE,
        clean_block_threshold: 1,
        flush_on_close: true,
        hash: HashSpec::Identity,
        key_class: vec![KeyClass::DiskAllowed; 4],
        buffer_pool_size: case.flushers * (3 * block_size).max(2 << 20),
        submit_queue_threshold: 1 << 30,
        admission_reject: vec![],
        reinsert: vec![],
        indexer_shards: 4,
        invalid_ratio_picker: false,
        hold_io: true,
        probation_pct: 10,
    }
}

#[derive(Default)]
struct E2EFlags {
    index_exactly_full: bool,
    block_exactly_full: bool,
    multi_blob_block: bool,
    reclaimed: bool,
    reopened: bool,
    quiescent_points: usize,
    crash_probes: usize,
}

/// Independent view of the image: for every block the entries that a scan reconstructs (stopping at the first clean
/// or damaged blob and, like recovery, at the first sequence that goes backwards).
fn parse_image(cfg: &HybCfg, image: &[Vec<u8>], failures: &mut Vec<Failure>, flags: &mut E2EFlags, ctx: &str) -> BTreeMap<u64, (u64, usize, usize, usize)> {
    let index_size = cfg.blob_index_size;
    let cap = (index_size - 12) / 24;
    let mut latest: BTreeMap<u64, (u64, usize, usize, usize)> = BTreeMap::new(); // hash -> (seq, block, abs, len)
    for (b, img) in image.iter().enumerate() {
        let blobs = walk_block(img, index_size);
        if blobs.len() >= 2 {
            flags.multi_blob_block = true;
        }
        let mut regions: Vec<(usize, usize, String)> = vec![];
        let mut last_seq = 0u64;
        let mut expected_next = 0usize;
        'blobs: for blob in &blobs {
            if blob.offset != expected_next {
                failures.push(Failure::new("e2e:blob-not-at-aligned-end", format!("{ctx}: block {b}: blob index at {} but the previous blob's last entry ends at {expected_next}", blob.offset)));
            }
            regions.push((blob.offset, blob.offset + index_size, format!("index@{}", blob.offset)));
            if blob.indices.len() == cap {
                flags.index_exactly_full = true;
            }
            for ix in &blob.indices {
                if ix.sequence < last_seq {
                    break 'blobs;
                }
                last_seq = ix.sequence;
                let abs = blob.offset + ix.offset;
                let end = abs + align_up(ix.len);
                if abs % PAGE != 0 || end > img.len() || ix.offset < index_size {
                    failures.push(Failure::new("e2e:entry-geometry", format!("{ctx}: block {b}: indexed entry (hash {}, seq {}) at [{abs}, {end}) is unaligned, outside the block or inside its blob index", ix.hash, ix.sequence)));
                    continue;
                }
                if end == img.len() {
                    flags.block_exactly_full = true;
                }
                regions.push((abs, end, format!("entry seq {}", ix.sequence)));
                match parse_entry(&img[abs..end]) {
                    Some(e) if e.hash == ix.hash && e.sequence == ix.sequence && e.len == ix.len && e.checksum_ok => {}
                    other => failures.push(Failure::new(
                        "e2e:index-does-not-match-entry",
                        format!("{ctx}: block {b}: index says (hash {}, seq {}, len {}) at {abs}, the bytes there are {:?}", ix.hash, ix.sequence, ix.len, other.map(|e| (e.hash, e.sequence, e.len, e.checksum_ok))),
                    )),
                }
                let cur = latest.get(&ix.hash).map(|(s, ..)| *s).unwrap_or(0);
                if ix.sequence >= cur {
                    latest.insert(ix.hash, (ix.sequence, b, abs, ix.len));
                }
                expected_next = end;
            }
            if blob.indices.is_empty() {
                break;
            }
        }
        regions.sort();
        for w in regions.windows(2) {
            if w[0].1 > w[1].0 {
                failures.push(Failure::new("e2e:overlap", format!("{ctx}: block {b}: {} [{}, {}) overlaps {} [{}, {})", w[0].2, w[0].0, w[0].1, w[1].2, w[1].0, w[1].1)));
            }
        }
    }
    latest
}

/// Crash cut-offs inside a batch: the batch's device writes are pending (io is held); complete them one by one and
/// after each completion reopen a copy of the device as it would be if the process died now (completed writes only).
/// The reopened store is at a quiescent point, so the second sentence of the statement applies to it: every key it
/// claims to hold loads, with matching key, from the recorded position.
fn crash_probes(sim: &mut HybSim, cfg: &HybCfg, model: &BTreeMap<u64, Option<u64>>, failures: &mut Vec<Failure>, flags: &mut E2EFlags, op: usize) {
    let mut n = 0;
    while sim.disk.pending_len() > 0 && n < 6 && flags.crash_probes < 18 && failures.is_empty() {
        sim.raw_complete_io(0);
        n += 1;
        flags.crash_probes += 1;
        let image = sim.disk.crash_image(&[]);
        let (mut s2, ok) = HybSim::from_image(cfg.clone(), image, foyer::RecoverMode::Quiet);
        if !ok {
            failures.push(Failure::new("e2e:crash-image-does-not-open", format!("op {op}: the device image after {n} completed writes of the batch does not open")));
            let _ = s2.finish();
            return;
        }
        let mut found = vec![];
        for k in model.keys() {
            let claims = s2.cache().storage().may_contains(k);
            match (s2.raw_get(*k), claims) {
                (Ok(LookupOut::Miss), true) => found.push(Failure::new(
                    "e2e:claimed-entry-does-not-load-after-crash",
                    format!("op {op}: process dies after {n} completed device writes of the batch; the reopened disk tier claims to hold key {k} (recovered from a blob index) but the entry cannot be loaded from the recorded position"),
                )),
                (Ok(LookupOut::Hit { decoded: Decoded::Valid { key, .. }, .. }), _) if key == *k => {}
                (Ok(LookupOut::Hit { decoded: Decoded::Tiny { .. }, .. }), _) => {}
                (Ok(LookupOut::Miss), false) => {}
                (Ok(other), _) => found.push(Failure::new("e2e:wrong-load-after-crash", format!("op {op}: after a crash at write {n} of the batch key {k} loads as {other:?}"))),
                (Err(_), _) => found.push(Failure::new("e2e:lookup-hangs", format!("op {op}: after a crash at write {n} of the batch get({k}) never resolves"))),
            }
        }
        // a full device starts reclaiming as soon as it is reopened: entries may then legitimately vanish between
        // may_contains and the lookup
        let reclaimed = s2.full_log().iter().any(|(_, r)| r.kind == IoKind::Write && r.offset == 0 && r.len == PAGE && r.data.as_ref().map(|d| d.iter().all(|x| *x == 0)).unwrap_or(false));
        let _ = s2.finish();
        if !reclaimed {
            failures.extend(found);
        }
    }
}

pub fn exec_e2e(case: &E2ECase) -> CaseReport {
    let cfg = cfg_e2e(case);
    let mut sim = HybSim::new(cfg.clone());
    let mut model: BTreeMap<u64, Option<u64>> = BTreeMap::new(); // key -> latest version (None = deleted)
    let mut failures: Vec<Failure> = vec![];
    let mut flags = E2EFlags::default();
    let mut next_fresh = 100u64;
    let max = cfg.max_value_len();
    let first_block_part = 0usize;

    let quiesce = |sim: &mut HybSim, model: &BTreeMap<u64, Option<u64>>, failures: &mut Vec<Failure>, flags: &mut E2EFlags, ctx: &str, after_reopen: Option<&BTreeMap<u64, u64>>| -> BTreeMap<u64, u64> {
        sim.disk.set_hold(false);
        sim.raw_drain();
        if sim.raw_wait().is_err() {
            failures.push(Failure::new("e2e:wait-hangs", format!("{ctx}: wait() never resolves although all device io completes")));
        }
        flags.quiescent_points += 1;
        let image = sim.disk.image();
        if std::env::var("VERIF_DUMP").is_ok() {
            eprintln!("IMAGE at {ctx}");
            crate::c04check::dump_image(&cfg, &image);
        }
        let parsed = parse_image(&cfg, &image[first_block_part..], failures, flags, ctx);
        // engine view: every key the disk tier claims must load bit-exactly, from the position the parse found
        sim.raw_evict_all();
        sim.raw_settle();
        let mut loaded: BTreeMap<u64, u64> = BTreeMap::new();
        // what the scan says is the newest entry of each hash, decoded from the image at the recorded position
        let scan_version = |k: &u64| -> Option<u64> {
            let (_, b, abs, len) = parsed.get(k)?;
            let e = parse_entry(&image[first_block_part + *b][*abs..*abs + align_up(*len)])?;
            match crate::hval::decode_value(e.value.as_ref()?) {
                Decoded::Valid { key, version } if key == *k => Some(version),
                _ => None,
            }
        };
        for (k, _latest_inserted) in model {
            let claims = sim.cache().storage().may_contains(k);
            let out = match sim.raw_get(*k) {
                Ok(o) => o,
                Err(_) => {
                    failures.push(Failure::new("e2e:lookup-hangs", format!("{ctx}: get({k}) never resolves")));
                    continue;
                }
            };
            sim.raw_evict_all();
            sim.raw_settle();
            match (&out, claims) {
                (LookupOut::Hit { decoded: Decoded::Valid { key, version }, .. }, _) if key == k => {
                    loaded.insert(*k, *version);
                    // the engine loads it: the scan must reconstruct exactly that entry as the newest of its hash
                    match scan_version(k) {
                        Some(v) if v == *version => {}
                        other => failures.push(Failure::new(
                            "e2e:loaded-entry-differs-from-scan",
                            format!("{ctx}: key {k} loads version {version} from disk, but scanning the device reconstructs {other:?} as the newest entry of that hash"),
                        )),
                    }
                }
                (LookupOut::Miss, false) => {}
                (LookupOut::Miss, true) => failures.push(Failure::new(
                    "e2e:claimed-entry-does-not-load",
                    format!("{ctx}: the disk tier claims to hold key {k} (may_contains) but the lookup misses"),
                )),
                (other, _) => failures.push(Failure::new("e2e:wrong-load", format!("{ctx}: key {k} (claimed by disk tier: {claims}) loads as {other:?}"))),
            }
        }
        // a device that is (nearly) full starts reclaiming as soon as it is reopened: then entries may legitimately be gone
        let cur_gen = sim.generation();
        let reclaimed_since_reopen = sim.full_log().iter().any(|(g, r)| {
            *g == cur_gen && r.kind == IoKind::Write && r.offset == 0 && r.len == PAGE && r.data.as_ref().map(|d| d.iter().all(|x| *x == 0)).unwrap_or(false)
        });
        if let (Some(before), false) = (after_reopen, reclaimed_since_reopen) {
            // recovery reconstructs exactly what the scan sees: every key the scan finds must load, with that version
            for k in model.keys() {
                if let Some(v) = scan_version(k) {
                    if loaded.get(k) != Some(&v) {
                        failures.push(Failure::new(
                            "e2e:recovery-differs-from-scan",
                            format!("{ctx}: scanning the device reconstructs version {v} for key {k}; after recovery the engine loads {:?}", loaded.get(k)),
                        ));
                    }
                }
            }
            // and nothing that loaded before a graceful reopen is lost by it
            for (k, v) in before {
                if !loaded.contains_key(k) {
                    failures.push(Failure::new(
                        "e2e:entry-lost-by-recovery",
                        format!("{ctx}: key {k} loaded version {v} before the graceful reopen, after recovery it does not load"),
                    ));
                }
            }
        }
        sim.disk.set_hold(true);
        loaded
    };

    let mut last_loaded: BTreeMap<u64, u64> = BTreeMap::new();
    for (i, op) in case.ops.iter().enumerate() {
        if failures.len() > 3 {
            break;
        }
        match op {
            EOp::Batch { entries } => {
                for (k, sz) in entries {
                    let len = match sz {
                        ESz::One => 25,
                        ESz::Edge { pages, delta } => (((*pages as usize).max(1) * PAGE) as isize - ENTRY_OVERHEAD as isize + *delta as isize).max(25) as usize,
                        ESz::Max => max,
                        ESz::FillBlock { extra } => {
                            // what is left in the most recently written block, per the independent parse
                            let image = sim.disk.image();
                            let mut best: Option<usize> = None;
                            let mut best_seq = 0u64;
                            for img in image.iter() {
                                let blobs = walk_block(img, cfg.blob_index_size);
                                if let Some(last) = blobs.iter().filter(|b| !b.indices.is_empty()).last() {
                                    let e = last.indices.last().unwrap();
                                    if e.sequence >= best_seq {
                                        best_seq = e.sequence;
                                        best = Some(img.len() - (last.offset + e.offset + align_up(e.len)));
                                    }
                                }
                            }
                            let room = best.unwrap_or(cfg.block_size - cfg.blob_index_size) + *extra as usize * PAGE;
                            room.saturating_sub(ENTRY_OVERHEAD).clamp(25, max)
                        }
                    };
                    let v = sim.raw_insert(*k as u64, len.min(max));
                    model.insert(*k as u64, Some(v));
                }
                sim.raw_settle();
                crash_probes(&mut sim, &cfg, &model, &mut failures, &mut flags, i);
            }
            EOp::Run { n } => {
                for _ in 0..*n {
                    let k = next_fresh;
                    next_fresh += 1;
                    let v = sim.raw_insert(k, 30);
                    model.insert(k, Some(v));
                }
                sim.raw_settle();
            }
            EOp::Delete { k } => {
                sim.raw_remove(*k as u64);
                model.insert(*k as u64, None);
                sim.raw_settle();
            }
            EOp::Reopen => {
                let before = quiesce(&mut sim, &model, &mut failures, &mut flags, &format!("before reopen (op {i})"), None);
                if std::env::var("VERIF_DUMP").is_ok() {
                    eprintln!("IMAGE before reopen (op {i})");
                    crate::c04check::dump_image(&cfg, &sim.disk.image());
                }
                if sim.raw_reopen().is_err() {
                    failures.push(Failure::new("e2e:reopen-failed", format!("op {i}: graceful reopen failed")));
                    break;
                }
                flags.reopened = true;
                // deletes are not persistent without the tombstone log: forget them in the model
                for (k, v) in model.iter_mut() {
                    if v.is_none() {
                        *v = before.get(k).copied();
                    }
                }
                // keys that were deleted may come back (documented); keys that loaded must load the same version
                let deleted: Vec<u64> = model.iter().filter(|(_, v)| v.is_none()).map(|(k, _)| *k).collect();
                for k in deleted {
                    model.remove(&k);
                }
                last_loaded = quiesce(&mut sim, &model, &mut failures, &mut flags, &format!("after reopen (op {i})"), Some(&before));
                continue;
            }
        }
        // release the held batch in a generated order? completion order within a batch is exercised by C01/C04; here
        // the boundary is what matters: complete everything, which makes the next op's entries a new batch
        last_loaded = quiesce(&mut sim, &model, &mut failures, &mut flags, &format!("after op {i}"), None);
    }
    let _ = last_loaded;
    let log = sim.full_log();
    flags.reclaimed = log.iter().any(|(_, r)| r.kind == IoKind::Write && r.offset == 0 && r.len == PAGE && r.data.as_ref().map(|d| d.iter().all(|x| *x == 0)).unwrap_or(false));
    let (sb, sc) = sim.shed_counters();
    let _ = sim.finish();
    let mut classes = vec![];
    if flags.index_exactly_full {
        classes.push("blob-index-exactly-full");
    }
    if flags.block_exactly_full {
        classes.push("block-exactly-full");
    }
    if flags.multi_blob_block {
        classes.push("several-blobs-in-one-block");
    }
    if flags.reclaimed {
        classes.push("reclaim-and-reuse");
    }
    if flags.reopened {
        classes.push("recovery-scan");
    }
    if flags.crash_probes > 0 {
        classes.push("crash-cut-inside-batch-reopened");
    }
    // entries dropped by a full buffer are outside the claim; the model would expect them
    let discarded = sb > 0 || sc > 0;
    let nontrivial = flags.index_exactly_full || flags.block_exactly_full || flags.multi_blob_block || flags.reclaimed;
    let mut rep = crate::hybchecks::split_known("C07", failures, nontrivial, classes, discarded);
    if discarded {
        rep.failure = None;
    }
    rep
}

pub fn check_c07(tier: Tier, seed: u64) -> i32 {
    let mut check = Check::new("C07", "exploration", tier, seed);
    check.rule = "(splitter) generated block sizes (4..360 pages), blob-index sizes (1-2 pages) and sequences of batches of entry lengths (1 byte, page, page+1, n pages, the per-entry maximum, runs of 169/170/171/340/341 small entries) drive Buffer + Splitter::split with a persistent SplitCtx; invariants on every returned blob part (alignment, inside the block, index record == entry, layout position) and on a virtual device replayed from the parts and walked by an independent format reader (scan reconstructs exactly what was written, regions pairwise disjoint, payload intact at the recorded position). (end to end) hybsim histories whose batch boundaries are chosen by holding io (entries enqueued while the previous batch is in flight form the next batch), sizes seeking the boundaries (fill the current block exactly / by one page more, page edges, maximum), runs that fill blob indexes, deletes, graceful reopen; blocks 16 KiB - 1 MiB, index 1-2 pages, flushers 1-3, devices small enough to be reclaimed and reused. At every quiescent point: independent parse of every block (geometry, index == header found there, checksum), every key the disk tier claims loads bit-exactly and is found by the scan, and after a graceful reopen the same keys load the same versions. Non-trivial = a blob index exactly full, or a block exactly full, or several blobs in a block / a batch spanning blocks, or reclaim-and-reuse; each class is reported in the histogram.".into();
    check.assumptions = vec!["identity hasher; compression off in the end-to-end part (C08 covers the codecs)".into()];
    let cases = tier.pick(6_000, 300_000);
    check.run_random("splitter", cases, split_case, exec_split);
    let cases = tier.pick(1200, 60_000);
    check.run_random("end-to-end", cases, e2e_case, exec_e2e);
    // fixed shapes: a reused block whose new content ends exactly at the boundary of a blob of its previous life
    // (1 MiB blocks = one full blob of 170 one-page entries + a second blob), followed by a recovery scan: the scan must
    // stop at the stale blob (its sequences go backwards)
    let tails: Vec<u16> = tier.pick(vec![84], vec![84, 60, 30]);
    let shapes: Vec<E2ECase> = tails
        .into_iter()
        .map(|n2| {
            let mut ops = vec![];
            for _ in 0..4 {
                ops.push(EOp::Run { n: 170 });
                ops.push(EOp::Run { n: n2 });
            }
            ops.push(EOp::Run { n: 170 });
            ops.push(EOp::Reopen);
            E2ECase { block_kib: 1024, index_pages: 1, flushers: 1, blocks: 4, ops }
        })
        .collect();
    check.run_fixed("stale-tail-of-reused-block", &shapes, exec_e2e);
    crate::fuzzglue::replay_seed_corpus(&check, "splitter");
    if tier == Tier::Thorough {
        crate::fuzzglue::campaign(&check, "splitter", 400_000, 256);
    }
    check.finish()
}
