//! hybsim: deterministic interpreter for `foyer::HybridCache` histories on the simulated device.
//!
//! All foyer background work (flushers, reclaimers, recovery, lookups) runs as tasks of one current-thread tokio
//! runtime and makes progress only when the interpreter yields to it (after every op) and completes pending device
//! ops that the generated history chose. The interpreter records a trace; oracles judge it (hyboracle.rs).

use std::sync::{
    Arc,
    atomic::{AtomicU64, Ordering},
};

use foyer::{
    BlockEngineConfig, Compression, FifoPicker, HybridCache, HybridCacheBuilder, HybridCacheEntry, HybridCachePolicy,
    HybridCacheProperties, InvalidRatioPicker, Location, RecoverMode, Source, StorageFilter, StorageFilterCondition,
    StorageFilterResult,
};
use parking_lot::Mutex;
use serde::{Deserialize, Serialize};

use crate::{
    common::midx,
    hasher::{HashSpec, SpecHasher},
    hval::{Decoded, decode_value, make_value},
    memsim::Algo,
    simdev::{LogRec, RecRegistry, SimDevice, SimDisk, SimIoEngineConfig},
};

pub const PAGE: usize = 4096;
/// EntryHeader (36) + u64 key (8) + Vec<u8> length prefix (8)
pub const ENTRY_OVERHEAD: usize = 36 + 8 + 8;

pub type Cache = HybridCache<u64, Vec<u8>, SpecHasher>;
pub type Entry = HybridCacheEntry<u64, Vec<u8>, SpecHasher>;

#[derive(Clone, Copy, Debug, Serialize, Deserialize, PartialEq, Eq)]
pub enum KeyClass {
    /// every insert of this key uses Default / OnDisk advice or the storage writer
    DiskAllowed,
    /// every insert of this key is advised in-memory-only
    MemOnly,
}

#[derive(Clone, Debug, Serialize, Deserialize, PartialEq, Eq)]
pub struct HybCfg {
    pub write_on_insertion: bool,
    pub algo: Algo,
    pub mem_capacity: usize,
    pub mem_shards: usize,
    pub tombstone: bool,
    /// 0 none, 1 zstd, 2 lz4
    pub compression: u8,
    pub flushers: usize,
    pub reclaimers: usize,
    pub blocks: usize,
    pub block_size: usize,
    pub blob_index_size: usize,
    pub clean_block_threshold: usize,
    pub flush_on_close: bool,
    pub hash: HashSpec,
    pub key_class: Vec<KeyClass>,
    pub buffer_pool_size: usize,
    pub submit_queue_threshold: usize,
    /// keys rejected by the admission filter
    pub admission_reject: Vec<u8>,
    /// keys admitted by the reinsertion filter (empty: reject all, the default)
    pub reinsert: Vec<u8>,
    pub indexer_shards: usize,
    pub invalid_ratio_picker: bool,
    /// start with held io
    pub hold_io: bool,
    /// FifoPicker probation ratio in percent (default picker: 10)
    #[serde(default = "default_probation")]
    pub probation_pct: u8,
}

fn default_probation() -> u8 {
    10
}

impl HybCfg {
    pub fn universe(&self) -> u8 {
        self.key_class.len() as u8
    }
    pub fn max_entry_size(&self) -> usize {
        self.block_size - self.blob_index_size
    }
    /// largest value length whose entry still fits the per-entry limit (uncompressed)
    pub fn max_value_len(&self) -> usize {
        self.max_entry_size() - ENTRY_OVERHEAD
    }
    pub fn tombstone_pages(&self) -> usize {
        if !self.tombstone {
            return 0;
        }
        // capacity = blocks*block_size + t*PAGE with t = ceil((capacity / PAGE) / 256)
        let b = self.blocks * self.block_size;
        let mut t = 1;
        loop {
            let cap = b + t * PAGE;
            let need = (cap / PAGE).div_ceil(256);
            if need <= t {
                return t;
            }
            t = need;
        }
    }
    pub fn device_capacity(&self) -> usize {
        self.blocks * self.block_size + self.tombstone_pages() * PAGE
    }
    pub fn compression(&self) -> Compression {
        match self.compression {
            1 => Compression::Zstd,
            2 => Compression::Lz4,
            _ => Compression::None,
        }
    }
}

/// Value size classes, resolved against the configuration.
#[derive(Clone, Copy, Debug, Serialize, Deserialize, PartialEq, Eq)]
pub enum Sz {
    /// 0..=24 bytes (no room for the value header below 25)
    Tiny(u8),
    Small(u16),
    /// the entry ends `delta` bytes before (-) / after (+) the end of its `pages`-th page
    PageEdge { pages: u8, delta: i8 },
    /// the largest entry the disk tier accepts
    Max,
    /// one byte more than that
    Oversize,
}

impl Sz {
    pub fn value_len(&self, cfg: &HybCfg) -> usize {
        let max = cfg.max_value_len();
        match *self {
            Sz::Tiny(n) => (n as usize).min(24),
            Sz::Small(n) => 25 + (n as usize % 2000),
            Sz::PageEdge { pages, delta } => {
                let pages = (pages as usize).clamp(1, (cfg.max_entry_size() / PAGE).max(1));
                let target = (pages * PAGE) as isize - ENTRY_OVERHEAD as isize + delta as isize;
                (target.max(0) as usize).min(max)
            }
            Sz::Max => max,
            Sz::Oversize => max + 1,
        }
    }
}

#[derive(Clone, Copy, Debug, Serialize, Deserialize, PartialEq, Eq)]
pub enum Loc {
    Default,
    OnDisk,
}

#[derive(Clone, Debug, Serialize, Deserialize, PartialEq, Eq)]
pub enum HOp {
    Insert { k: u8, sz: Sz, loc: Loc, hold: bool, compressible: bool },
    WriterInsert { k: u8, sz: Sz, force: bool, hold: bool },
    Remove { k: u8 },
    Get { k: u8 },
    Fetch { k: u8, sz: Sz },
    Contains { k: u8 },
    MemEvictAll,
    DropHandle { h: u16 },
    HoldIo,
    ReleaseIo,
    CompleteIo { i: u16 },
    FailIo { i: u16 },
    Drain,
    Wait,
    Clear,
    /// graceful close, then reopen on the same image
    Reopen,
    /// close and keep using the closed cache (C15)
    Close,
    Throttle { on: bool },
    /// flip the admission filter of the disk tier: while off, every write offered to the disk tier is rejected
    Admission { admit: bool },
    Nop,
    /// read every key of the universe from the memory tier (has the side effects of a lookup; used by C15 right
    /// before close to record what is resident)
    SnapshotMem,
    /// drop the cache without calling close(), let the spawned close finish, reopen
    ReopenNoClose,
    /// close(); the instant it resolves the process "dies": only device writes completed by then are in the image
    /// that is reopened (pending device ops are lost)
    CloseCrashReopen,
}

#[derive(Clone, Debug, Serialize, PartialEq, Eq)]
pub enum Src {
    Memory,
    Disk,
    Outer,
}

#[derive(Clone, Debug, Serialize, PartialEq, Eq)]
pub enum LookupOut {
    Miss,
    Hit {
        decoded: Decoded,
        len: usize,
        source: Src,
        bytes_head: Vec<u8>,
        /// entry age reported by the cache: 0 fresh, 1 young, 2 old
        age: u8,
        in_mem_advice: bool,
    },
    Err(String),
}

#[derive(Clone, Debug, Serialize, PartialEq, Eq)]
pub enum TaskKind {
    Get { k: u64 },
    Fetch { k: u64 },
    Wait,
    Close,
    Clear,
}

#[derive(Clone, Debug, Serialize)]
pub enum TaskOut {
    Lookup(LookupOut),
    Unit(Result<(), String>),
}

#[derive(Clone, Debug, Serialize)]
pub struct TaskRec {
    pub kind: TaskKind,
    pub issued_at: u64,
    pub resolved_at: Option<u64>,
    pub out: Option<TaskOut>,
    /// Fetch only: (version, len) the origin produced and the step at which the origin future was first polled
    pub fetched: Option<(u64, usize, u64)>,
}

#[derive(Clone, Debug, Serialize, PartialEq, Eq)]
pub enum HRet {
    None,
    /// an insert returned; `accepted` is false when the storage writer's admission filter refused (nothing inserted)
    Inserted { key: u64, version: u64, len: usize, accepted: bool, mem_only: bool, disk_only: bool },
    Task(usize),
    Contains { any: bool, mem: bool },
    Dropped(Option<(u64, u64)>),
    Io(bool),
    /// reopen finished; false = open failed
    Reopened(bool),
    /// (key, version) of every entry found in the memory tier
    MemSnapshot(Vec<(u64, u64)>),
}

#[derive(Clone, Debug, Serialize)]
pub struct HStep {
    pub ret: HRet,
    /// tasks that resolved during this step
    pub resolved: Vec<usize>,
    pub log_len: usize,
    pub pending: usize,
    pub shed_buffer: u64,
    pub shed_channel: u64,
    /// a task that can never resolve: nothing pending on the device, runtime quiescent, task still pending
    pub hang: Option<usize>,
    /// memory residency of the universe, observed through `memory().contains` (no side effects)
    pub mem_contains: u32,
    pub disk_contains: u32,
    /// index of the cache generation (incremented by every reopen)
    pub generation: u32,
}

#[derive(Clone, Debug, Serialize)]
pub struct HTrace {
    pub steps: Vec<HStep>,
    pub tasks: Vec<TaskRec>,
    /// write log of every generation (generation, record)
    pub log: Vec<(u32, LogRec)>,
    /// version -> (key, len) for everything the harness ever produced
    pub versions: Vec<(u64, u64, usize)>,
    pub panicked: Option<String>,
}

#[derive(Debug)]
struct RejectKeys {
    hashes: Vec<u64>,
    calls: Arc<AtomicU64>,
}

impl StorageFilterCondition for RejectKeys {
    fn filter(&self, _: &Arc<foyer::Statistics>, hash: u64, _: usize) -> StorageFilterResult {
        self.calls.fetch_add(1, Ordering::Relaxed);
        if self.hashes.contains(&hash) {
            StorageFilterResult::Reject
        } else {
            StorageFilterResult::Admit
        }
    }
}

/// Lock probe shared with the user callbacks of a hybrid cache under test (C16): weighter, event listener, admission
/// and reinsertion filter conditions ask it whether a memory shard lock, an in-flight table lock or a write-queue table
/// lock is held. All foyer tasks run on the harness thread, so a held lock is held by the caller of the callback.
#[derive(Default)]
pub struct LockProbe {
    cache: Mutex<Option<Cache>>,
    pub violations: Mutex<Vec<String>>,
    pub calls: AtomicU64,
    pub kinds: Mutex<std::collections::BTreeSet<&'static str>>,
}

impl std::fmt::Debug for LockProbe {
    fn fmt(&self, f: &mut std::fmt::Formatter<'_>) -> std::fmt::Result {
        write!(f, "LockProbe")
    }
}

impl LockProbe {
    pub fn check(&self, who: &'static str) {
        self.calls.fetch_add(1, Ordering::Relaxed);
        self.kinds.lock().insert(who);
        let Some(g) = self.cache.try_lock() else { return };
        if let Some(c) = g.as_ref() {
            let mem = c.memory().verif_locked_shards();
            let keeper = c.storage().verif_keeper_locked_shards();
            if mem > 0 || keeper > 0 {
                self.violations.lock().push(format!(
                    "{who} ran while {mem} memory shard / in-flight table lock(s) and {keeper} write-queue table lock(s) were held by the calling thread"
                ));
            }
        }
    }
}

thread_local! {
    /// the next HybSim constructed on this thread takes this probe (keeps the constructors' signatures)
    static PROBE_NEXT: std::cell::RefCell<Option<Arc<LockProbe>>> = const { std::cell::RefCell::new(None) };
}

pub fn probe_next_sim(p: Arc<LockProbe>) {
    PROBE_NEXT.with(|x| *x.borrow_mut() = Some(p));
}

struct ProbeListener(Arc<LockProbe>);
impl foyer::EventListener for ProbeListener {
    type Key = u64;
    type Value = Vec<u8>;
    fn on_leave(&self, _reason: foyer::Event, _key: &u64, _value: &Vec<u8>) {
        self.0.check("event-listener");
    }
}

/// Admission condition driven by the history (`HOp::Admission`): admit everything / reject everything.
#[derive(Debug)]
struct AdmitSwitch {
    admit: Arc<std::sync::atomic::AtomicBool>,
    probe: Option<Arc<LockProbe>>,
}

impl StorageFilterCondition for AdmitSwitch {
    fn filter(&self, _: &Arc<foyer::Statistics>, _: u64, _: usize) -> StorageFilterResult {
        if let Some(p) = &self.probe {
            p.check("admission-filter");
        }
        if self.admit.load(Ordering::SeqCst) {
            StorageFilterResult::Admit
        } else {
            StorageFilterResult::Reject
        }
    }
}

#[derive(Debug)]
struct AdmitKeys {
    hashes: Vec<u64>,
    probe: Option<Arc<LockProbe>>,
}

impl StorageFilterCondition for AdmitKeys {
    fn filter(&self, _: &Arc<foyer::Statistics>, hash: u64, _: usize) -> StorageFilterResult {
        if let Some(p) = &self.probe {
            p.check("reinsertion-filter");
        }
        if self.hashes.contains(&hash) {
            StorageFilterResult::Admit
        } else {
            StorageFilterResult::Reject
        }
    }
}

struct Slot {
    out: Option<TaskOut>,
}

pub struct HybSim {
    pub cfg: HybCfg,
    rt: Option<tokio::runtime::Runtime>,
    pub disk: SimDisk,
    reg: RecRegistry,
    cache: Option<Cache>,
    handles: Vec<Option<(Entry, u64, u64)>>,
    tasks: Vec<TaskRec>,
    slots: Vec<Arc<Mutex<Slot>>>,
    sides: Vec<Option<Arc<Mutex<Option<(u64, usize, u64)>>>>>,
    step: Arc<AtomicU64>,
    next_version: Arc<AtomicU64>,
    versions: Arc<Mutex<Vec<(u64, u64, usize)>>>,
    generation: u32,
    log: Vec<(u32, LogRec)>,
    closed: bool,
    /// state of the history-driven admission switch (kept across reopen)
    admit: Arc<std::sync::atomic::AtomicBool>,
    /// lock probe for user callbacks of the hybrid cache (C16); None = callbacks do not probe
    pub probe: Option<Arc<LockProbe>>,
}

fn lookup_out(r: foyer::Result<Option<Entry>>) -> LookupOut {
    match r {
        Ok(None) => LookupOut::Miss,
        Ok(Some(e)) => {
            let v = e.value();
            LookupOut::Hit {
                decoded: decode_value(v),
                len: v.len(),
                source: match e.source() {
                    Source::Memory => Src::Memory,
                    Source::Disk => Src::Disk,
                    Source::Outer => Src::Outer,
                },
                bytes_head: v.iter().take(24).copied().collect(),
                age: match e.properties().age() {
                    foyer::Age::Fresh => 0,
                    foyer::Age::Young => 1,
                    foyer::Age::Old => 2,
                },
                in_mem_advice: e.properties().location() == Location::InMem,
            }
        }
        Err(e) => LookupOut::Err(format!("{:?}", e.kind())),
    }
}

impl HybSim {
    pub fn new(cfg: HybCfg) -> Self {
        let rt = tokio::runtime::Builder::new_current_thread().build().unwrap();
        let disk = SimDisk::new();
        let mut sim = Self {
            cfg,
            rt: Some(rt),
            disk,
            reg: RecRegistry::default(),
            cache: None,
            handles: vec![],
            tasks: vec![],
            slots: vec![],
            sides: vec![],
            step: Arc::new(AtomicU64::new(0)),
            next_version: Arc::new(AtomicU64::new(1)),
            versions: Arc::new(Mutex::new(vec![])),
            generation: 0,
            log: vec![],
            closed: false,
            admit: Arc::new(std::sync::atomic::AtomicBool::new(true)),
            probe: PROBE_NEXT.with(|p| p.borrow_mut().take()),
        };
        let ok = sim.open(RecoverMode::Quiet);
        assert!(ok, "harness: initial open of an empty device failed");
        sim.disk.set_hold(sim.cfg.hold_io);
        sim
    }

    /// Open on an existing image (recovery path).
    pub fn from_image(cfg: HybCfg, image: Vec<Vec<u8>>, mode: RecoverMode) -> (Self, bool) {
        let rt = tokio::runtime::Builder::new_current_thread().build().unwrap();
        let disk = SimDisk::from_image(image);
        let mut sim = Self {
            cfg,
            rt: Some(rt),
            disk,
            reg: RecRegistry::default(),
            cache: None,
            handles: vec![],
            tasks: vec![],
            slots: vec![],
            sides: vec![],
            step: Arc::new(AtomicU64::new(0)),
            next_version: Arc::new(AtomicU64::new(1_000_000)),
            versions: Arc::new(Mutex::new(vec![])),
            generation: 0,
            log: vec![],
            closed: false,
            admit: Arc::new(std::sync::atomic::AtomicBool::new(true)),
            probe: PROBE_NEXT.with(|p| p.borrow_mut().take()),
        };
        let ok = sim.open(mode);
        (sim, ok)
    }

    pub fn set_next_version(&self, v: u64) {
        self.next_version.store(v, Ordering::SeqCst);
    }

    fn open(&mut self, mode: RecoverMode) -> bool {
        let cfg = self.cfg.clone();
        let was_hold = self.disk.is_hold();
        self.disk.set_hold(false);
        let device = SimDevice::new(self.disk.clone(), cfg.device_capacity());
        let mut engine = BlockEngineConfig::<u64, Vec<u8>, HybridCacheProperties>::new(device)
            .with_block_size(cfg.block_size)
            .with_indexer_shards(cfg.indexer_shards)
            .with_recover_concurrency(2)
            .with_flushers(cfg.flushers)
            .with_reclaimers(cfg.reclaimers)
            .with_buffer_pool_size(cfg.buffer_pool_size)
            .with_blob_index_size(cfg.blob_index_size)
            .with_submit_queue_size_threshold(cfg.submit_queue_threshold)
            .with_clean_block_threshold(cfg.clean_block_threshold)
            .with_tombstone_log(cfg.tombstone)
            .with_compression(cfg.compression());
        // FifoPicker last always picks, so the engine never falls back to its random choice
        let fifo = || Box::new(FifoPicker::new(cfg.probation_pct as f64 / 100.0));
        if cfg.invalid_ratio_picker {
            engine = engine.with_eviction_pickers(vec![Box::new(InvalidRatioPicker::new(0.8)), fifo()]);
        } else {
            engine = engine.with_eviction_pickers(vec![fifo()]);
        }
        engine = engine.with_admission_filter(
            StorageFilter::new()
                .with_condition(RejectKeys {
                    hashes: cfg.admission_reject.iter().map(|k| cfg.hash.hash_of(*k as u64)).collect(),
                    calls: Arc::new(AtomicU64::new(0)),
                })
                .with_condition(AdmitSwitch { admit: self.admit.clone(), probe: self.probe.clone() }),
        );
        if !cfg.reinsert.is_empty() {
            engine = engine.with_reinsertion_filter(StorageFilter::new().with_condition(AdmitKeys {
                hashes: cfg.reinsert.iter().map(|k| cfg.hash.hash_of(*k as u64)).collect(),
                probe: self.probe.clone(),
            }));
        }
        let mut first = HybridCacheBuilder::new().with_name("verif");
        if let Some(p) = &self.probe {
            first = first.with_event_listener(Arc::new(ProbeListener(p.clone())));
        }
        let builder = first
            .with_policy(if cfg.write_on_insertion {
                HybridCachePolicy::WriteOnInsertion
            } else {
                HybridCachePolicy::WriteOnEviction
            })
            .with_flush_on_close(cfg.flush_on_close)
            .with_metrics_registry(Box::new(self.reg.clone()))
            .memory(cfg.mem_capacity)
            .with_shards(cfg.mem_shards)
            .with_eviction_config(cfg.algo.eviction_config())
            .with_hash_builder(SpecHasher::new(cfg.hash.clone()))
            .with_weighter({
                let probe = self.probe.clone();
                move |_k: &u64, v: &Vec<u8>| {
                    if let Some(p) = &probe {
                        p.check("weighter");
                    }
                    v.len() + 16
                }
            })
            .storage()
            .with_io_engine_config(Box::new(SimIoEngineConfig { disk: self.disk.clone() }) as Box<dyn foyer::IoEngineConfig>)
            .with_engine_config(engine)
            .with_recover_mode(mode);
        let rt = self.rt.as_ref().unwrap();
        let res = rt.block_on(builder.build());
        self.disk.set_hold(was_hold);
        match res {
            Ok(cache) => {
                if let Some(p) = &self.probe {
                    *p.cache.lock() = Some(cache.clone());
                }
                self.cache = Some(cache);
                self.closed = false;
                true
            }
            Err(_) => false,
        }
    }

    /// Drop the cache (and the probe's clone of it first, so that this really is the last handle).
    fn drop_cache(&mut self) {
        if let Some(p) = &self.probe {
            *p.cache.lock() = None;
        }
        self.cache = None;
    }

    pub fn cache(&self) -> &Cache {
        self.cache.as_ref().unwrap()
    }

    fn settle(&self) {
        let rt = self.rt.as_ref().unwrap();
        rt.block_on(async {
            // Quiescent = the runtime has no runnable task (run queue and injection queue empty on consecutive
            // yields; tokio's unstable metrics) and the simulated device saw no new call meanwhile. A fixed number of
            // "quiet" yields alone misjudges long hand-off chains between foyer tasks that touch no device.
            let metrics = tokio::runtime::Handle::current().metrics();
            let mut quiet = 0;
            let mut last = self.disk.progress();
            for _ in 0..200_000 {
                tokio::task::yield_now().await;
                let p = self.disk.progress();
                // (builds without --cfg tokio_unstable - the cargo-fuzz targets, which never run hybsim - only see the
                // injection queue and fall back to a long run of quiet yields)
                #[cfg(tokio_unstable)]
                let (runnable, need) = (metrics.worker_local_queue_depth(0) + metrics.global_queue_depth(), 4);
                #[cfg(not(tokio_unstable))]
                let (runnable, need) = (metrics.global_queue_depth(), 64);
                if p == last && runnable == 0 {
                    quiet += 1;
                    if quiet >= need {
                        break;
                    }
                } else {
                    quiet = 0;
                    last = p;
                }
            }
        });
    }

    fn spawn_task<F>(&mut self, kind: TaskKind, fut: F) -> usize
    where
        F: std::future::Future<Output = TaskOut> + Send + 'static,
    {
        let slot = Arc::new(Mutex::new(Slot { out: None }));
        self.sides.push(None);
        let s2 = slot.clone();
        self.rt.as_ref().unwrap().spawn(async move {
            let out = fut.await;
            s2.lock().out = Some(out);
        });
        self.slots.push(slot);
        self.tasks.push(TaskRec {
            kind,
            issued_at: self.step.load(Ordering::SeqCst),
            resolved_at: None,
            out: None,
            fetched: None,
        });
        self.tasks.len() - 1
    }

    fn collect(&mut self) -> Vec<usize> {
        let mut done = vec![];
        let step = self.step.load(Ordering::SeqCst);
        for (i, t) in self.tasks.iter_mut().enumerate() {
            let mut s = self.slots[i].lock();
            if t.fetched.is_none() {
                if let Some(side) = &self.sides[i] {
                    t.fetched = *side.lock();
                }
            }
            if t.resolved_at.is_none() {
                if let Some(out) = s.out.take() {
                    t.out = Some(out);
                    t.resolved_at = Some(step);
                    done.push(i);
                }
            }
        }
        done
    }

    /// complete pending io oldest-first until nothing is pending (bounded); returns true if quiescent
    fn drain(&mut self) -> Vec<usize> {
        let mut resolved = vec![];
        for _ in 0..20_000 {
            self.settle();
            resolved.extend(self.collect());
            if self.disk.pending_len() == 0 {
                break;
            }
            self.disk.complete(0);
        }
        resolved
    }

    /// drain until `task` resolves; None = resolved, Some(task) = hang
    fn drain_until(&mut self, task: usize, resolved: &mut Vec<usize>) -> Option<usize> {
        for _ in 0..20_000 {
            self.settle();
            resolved.extend(self.collect());
            if self.tasks[task].resolved_at.is_some() {
                return None;
            }
            if self.disk.pending_len() == 0 {
                // quiescent: nothing can make progress any more
                self.settle();
                resolved.extend(self.collect());
                if self.tasks[task].resolved_at.is_some() {
                    return None;
                }
                return Some(task);
            }
            self.disk.complete(0);
        }
        Some(task)
    }

    fn new_value(&self, key: u64, len: usize, compressible: bool) -> (u64, Vec<u8>) {
        let version = self.next_version.fetch_add(1, Ordering::SeqCst);
        self.versions.lock().push((version, key, len));
        (version, make_value(key, version, len, compressible))
    }

    fn sync_log(&mut self) {
        let have = self.log.iter().filter(|(g, _)| *g == self.generation).count();
        let log = self.disk.log();
        // refresh completion info of the current generation and append new records
        let cur: Vec<(u32, LogRec)> = log.into_iter().map(|r| (self.generation, r)).collect();
        let keep: Vec<(u32, LogRec)> = self.log.iter().filter(|(g, _)| *g != self.generation).cloned().collect();
        let _ = have;
        self.log = keep;
        self.log.extend(cur);
    }

    fn observe(&mut self, ret: HRet, mut resolved: Vec<usize>, hang: Option<usize>) -> HStep {
        self.settle();
        resolved.extend(self.collect());
        let mut mem_contains = 0u32;
        let mut disk_contains = 0u32;
        if let Some(cache) = self.cache.as_ref() {
            for k in 0..(self.cfg.universe() as u64).min(32) {
                if cache.memory().contains(&k) {
                    mem_contains |= 1 << k;
                }
                if cache.storage().may_contains(&k) {
                    disk_contains |= 1 << k;
                }
            }
        }
        HStep {
            ret,
            resolved,
            log_len: self.disk.log_len(),
            pending: self.disk.pending_len(),
            shed_buffer: self.reg.get("buffer_overflow"),
            shed_channel: self.reg.get("channel_overflow"),
            hang,
            mem_contains,
            disk_contains,
            generation: self.generation,
        }
    }

    fn live_handles(&self) -> Vec<usize> {
        self.handles
            .iter()
            .enumerate()
            .filter(|(_, h)| h.is_some())
            .map(|(i, _)| i)
            .collect()
    }

    pub fn step(&mut self, op: &HOp) -> HStep {
        let step = self.step.fetch_add(1, Ordering::SeqCst) + 1;
        self.disk.set_step(step);
        let mut resolved = vec![];
        let mut hang = None;
        let ret = match op {
            HOp::Nop => HRet::None,
            HOp::SnapshotMem => {
                let mut v = vec![];
                for k in 0..self.cfg.universe() as u64 {
                    if let Some(e) = self.cache().memory().get(&k) {
                        if let Decoded::Valid { key, version } = decode_value(e.value()) {
                            v.push((key, version));
                        } else {
                            v.push((k, u64::MAX));
                        }
                    }
                }
                HRet::MemSnapshot(v)
            }
            HOp::CloseCrashReopen => {
                let cache = self.cache().clone();
                let t = self.spawn_task(TaskKind::Close, async move {
                    TaskOut::Unit(cache.close().await.map_err(|e| format!("{:?}", e.kind())))
                });
                hang = self.drain_until(t, &mut resolved);
                if hang.is_none() {
                    let image = self.disk.image();
                    self.sync_log();
                    self.disk.abandon_pending();
                    self.handles.clear();
                    self.drop_cache();
                    drop(self.rt.take());
                    self.rt = Some(tokio::runtime::Builder::new_current_thread().build().unwrap());
                    self.disk = SimDisk::from_image(image);
                    self.disk.set_hold(false);
                    self.disk.set_step(step);
                    self.generation += 1;
                    let ok = self.open(RecoverMode::Quiet);
                    HRet::Reopened(ok)
                } else {
                    HRet::Task(t)
                }
            }
            HOp::ReopenNoClose => {
                self.handles.clear();
                self.drop_cache();
                resolved.extend(self.drain());
                self.sync_log();
                drop(self.rt.take());
                self.rt = Some(tokio::runtime::Builder::new_current_thread().build().unwrap());
                let image = self.disk.image();
                let hold = self.disk.is_hold();
                self.disk = SimDisk::from_image(image);
                self.disk.set_hold(hold);
                self.disk.set_step(step);
                self.generation += 1;
                let ok = self.open(RecoverMode::Quiet);
                HRet::Reopened(ok)
            }
            HOp::Insert { k, sz, loc, hold, compressible } => {
                let key = *k as u64;
                let len = sz.value_len(&self.cfg);
                let (version, value) = self.new_value(key, len, *compressible);
                let class = self.cfg.key_class[*k as usize];
                let (location, mem_only, disk_only) = match (class, loc) {
                    (KeyClass::MemOnly, _) => (Location::InMem, true, false),
                    (KeyClass::DiskAllowed, Loc::Default) => (Location::Default, false, false),
                    (KeyClass::DiskAllowed, Loc::OnDisk) => (Location::OnDisk, false, true),
                };
                let e = if location == Location::Default && version % 2 == 0 {
                    // exercise both entry points
                    self.cache().insert(key, value)
                } else {
                    self.cache()
                        .insert_with_properties(key, value, HybridCacheProperties::default().with_location(location))
                };
                if *hold {
                    self.handles.push(Some((e, key, version)));
                } else {
                    drop(e);
                }
                HRet::Inserted { key, version, len, accepted: true, mem_only, disk_only }
            }
            HOp::WriterInsert { k, sz, force, hold } => {
                let key = *k as u64;
                if self.cfg.key_class[*k as usize] == KeyClass::MemOnly {
                    HRet::None
                } else {
                    let len = sz.value_len(&self.cfg);
                    let (version, value) = self.new_value(key, len, false);
                    let mut w = self.cache().storage_writer(key);
                    if *force {
                        w = w.force();
                    }
                    match w.insert(value) {
                        Some(e) => {
                            if *hold {
                                self.handles.push(Some((e, key, version)));
                            }
                            HRet::Inserted { key, version, len, accepted: true, mem_only: false, disk_only: true }
                        }
                        None => HRet::Inserted { key, version, len, accepted: false, mem_only: false, disk_only: true },
                    }
                }
            }
            HOp::Remove { k } => {
                let key = *k as u64;
                self.cache().remove(&key);
                HRet::None
            }
            HOp::Get { k } => {
                let key = *k as u64;
                let fut = self.cache().get(&key);
                let t = self.spawn_task(TaskKind::Get { k: key }, async move { TaskOut::Lookup(lookup_out(fut.await)) });
                HRet::Task(t)
            }
            HOp::Fetch { k, sz } => {
                let key = *k as u64;
                let len = sz.value_len(&self.cfg);
                let next_version = self.next_version.clone();
                let versions = self.versions.clone();
                let stepc = self.step.clone();
                let side: Arc<Mutex<Option<(u64, usize, u64)>>> = Arc::new(Mutex::new(None));
                let side2 = side.clone();
                let class = self.cfg.key_class[*k as usize];
                let fut = self.cache().get_or_fetch(&key, move || async move {
                    // origin: returns the current source-of-truth value, i.e. a fresh version
                    let version = next_version.fetch_add(1, Ordering::SeqCst);
                    versions.lock().push((version, key, len));
                    *side2.lock() = Some((version, len, stepc.load(Ordering::SeqCst)));
                    let value = make_value(key, version, len, false);
                    let props = HybridCacheProperties::default().with_location(match class {
                        KeyClass::MemOnly => Location::InMem,
                        KeyClass::DiskAllowed => Location::Default,
                    });
                    Ok::<_, anyhow::Error>((value, props))
                });
                let t = self.spawn_task(TaskKind::Fetch { k: key }, async move {
                    let r = fut.await;
                    TaskOut::Lookup(lookup_out(r.map(Some)))
                });
                self.sides[t] = Some(side);
                HRet::Task(t)
            }
            HOp::Contains { k } => {
                let key = *k as u64;
                HRet::Contains {
                    any: self.cache().contains(&key),
                    mem: self.cache().memory().contains(&key),
                }
            }
            HOp::MemEvictAll => {
                self.cache().memory().evict_all();
                HRet::None
            }
            HOp::DropHandle { h } => {
                let live = self.live_handles();
                if live.is_empty() {
                    HRet::Dropped(None)
                } else {
                    let slot = live[midx(*h, live.len())];
                    let (e, key, version) = self.handles[slot].take().unwrap();
                    drop(e);
                    HRet::Dropped(Some((key, version)))
                }
            }
            HOp::HoldIo => {
                self.disk.set_hold(true);
                HRet::None
            }
            HOp::ReleaseIo => {
                self.disk.set_hold(false);
                resolved.extend(self.drain());
                HRet::None
            }
            HOp::CompleteIo { i } => {
                let n = self.disk.pending_len();
                if n == 0 {
                    HRet::Io(false)
                } else {
                    HRet::Io(self.disk.complete(midx(*i, n)))
                }
            }
            HOp::FailIo { i } => {
                let n = self.disk.pending_len();
                if n == 0 {
                    HRet::Io(false)
                } else {
                    HRet::Io(self.disk.fail(midx(*i, n)))
                }
            }
            HOp::Drain => {
                resolved.extend(self.drain());
                HRet::None
            }
            HOp::Wait => {
                let store = self.cache().storage().clone();
                let t = self.spawn_task(TaskKind::Wait, async move {
                    store.wait().await;
                    TaskOut::Unit(Ok(()))
                });
                hang = self.drain_until(t, &mut resolved);
                HRet::Task(t)
            }
            HOp::Clear => {
                let cache = self.cache().clone();
                let t = self.spawn_task(TaskKind::Clear, async move {
                    TaskOut::Unit(cache.clear().await.map_err(|e| format!("{:?}", e.kind())))
                });
                hang = self.drain_until(t, &mut resolved);
                HRet::Task(t)
            }
            HOp::Close => {
                let cache = self.cache().clone();
                let t = self.spawn_task(TaskKind::Close, async move {
                    TaskOut::Unit(cache.close().await.map_err(|e| format!("{:?}", e.kind())))
                });
                hang = self.drain_until(t, &mut resolved);
                self.closed = true;
                HRet::Task(t)
            }
            HOp::Reopen => {
                let cache = self.cache().clone();
                let t = self.spawn_task(TaskKind::Close, async move {
                    TaskOut::Unit(cache.close().await.map_err(|e| format!("{:?}", e.kind())))
                });
                hang = self.drain_until(t, &mut resolved);
                if hang.is_none() {
                    // drop every handle and the cache, let the remaining tasks finish, then reopen
                    self.handles.clear();
                    self.drop_cache();
                    resolved.extend(self.drain());
                    self.sync_log();
                    // a fresh runtime: every task of the old generation is gone
                    drop(self.rt.take());
                    self.rt = Some(tokio::runtime::Builder::new_current_thread().build().unwrap());
                    let image = self.disk.image();
                    let hold = self.disk.is_hold();
                    self.disk = SimDisk::from_image(image);
                    self.disk.set_hold(hold);
                    self.disk.set_step(step);
                    self.generation += 1;
                    let ok = self.open(RecoverMode::Quiet);
                    let _ = t;
                    HRet::Reopened(ok)
                } else {
                    HRet::Task(t)
                }
            }
            HOp::Admission { admit } => {
                self.admit.store(*admit, Ordering::SeqCst);
                HRet::None
            }
            HOp::Throttle { on } => {
                if *on {
                    self.cache().storage().load_throttle_switch().throttle();
                } else {
                    self.cache().storage().load_throttle_switch().unthrottle();
                }
                HRet::None
            }
        };
        self.observe(ret, resolved, hang)
    }

    // ---- raw helpers for checks with their own op loops (C10, C04, C09) ---------------------------------------

    pub fn raw_insert(&mut self, key: u64, len: usize) -> u64 {
        let (version, value) = self.new_value(key, len, false);
        let e = self.cache().insert(key, value);
        drop(e);
        version
    }

    pub fn raw_insert_c(&mut self, key: u64, len: usize, compressible: bool) -> u64 {
        let (version, value) = self.new_value(key, len, compressible);
        let e = self.cache().insert(key, value);
        drop(e);
        version
    }

    pub fn raw_remove(&mut self, key: u64) {
        self.cache().remove(&key);
    }

    pub fn raw_evict_all(&mut self) {
        self.cache().memory().evict_all();
    }

    /// blocking lookup: issues get(), pumps io until it resolves; Err(task) = hang
    pub fn raw_get(&mut self, key: u64) -> Result<LookupOut, usize> {
        let fut = self.cache().get(&key);
        let t = self.spawn_task(TaskKind::Get { k: key }, async move { TaskOut::Lookup(lookup_out(fut.await)) });
        let mut resolved = vec![];
        match self.drain_until(t, &mut resolved) {
            None => match self.tasks[t].out.clone() {
                Some(TaskOut::Lookup(o)) => Ok(o),
                _ => Err(t),
            },
            Some(t) => Err(t),
        }
    }

    /// blocking wait(): Ok when it resolved, Err = hang
    pub fn raw_wait(&mut self) -> Result<(), usize> {
        let store = self.cache().storage().clone();
        let t = self.spawn_task(TaskKind::Wait, async move {
            store.wait().await;
            TaskOut::Unit(Ok(()))
        });
        let mut resolved = vec![];
        match self.drain_until(t, &mut resolved) {
            None => Ok(()),
            Some(t) => Err(t),
        }
    }

    /// issue wait() without pumping io; poll with `raw_task_done`
    pub fn raw_wait_issue(&mut self) -> usize {
        let store = self.cache().storage().clone();
        self.spawn_task(TaskKind::Wait, async move {
            store.wait().await;
            TaskOut::Unit(Ok(()))
        })
    }

    pub fn raw_task_done(&mut self, t: usize) -> bool {
        let _ = self.collect();
        self.tasks[t].resolved_at.is_some()
    }

    pub fn raw_complete_io(&mut self, i: usize) -> bool {
        let ok = self.disk.complete(i);
        self.settle();
        let _ = self.collect();
        ok
    }

    pub fn raw_settle(&mut self) {
        self.settle();
        let _ = self.collect();
    }

    pub fn raw_drain(&mut self) {
        let _ = self.drain();
    }

    /// graceful close + reopen on the same image; Err = close hangs / open failed
    pub fn raw_reopen(&mut self) -> Result<(), String> {
        let st = self.step(&HOp::Reopen);
        match st.ret {
            HRet::Reopened(true) => Ok(()),
            HRet::Reopened(false) => Err("open failed".into()),
            _ => Err("close never resolves".into()),
        }
    }

    /// the process dies now: only completed device writes survive; reopen from that image
    pub fn raw_crash_reopen(&mut self, tears: &[(usize, u64)]) -> Result<(), String> {
        let image = self.disk.crash_image(tears);
        self.sync_log();
        self.disk.abandon_pending();
        self.handles.clear();
        self.drop_cache();
        drop(self.rt.take());
        self.rt = Some(tokio::runtime::Builder::new_current_thread().build().unwrap());
        let hold = self.disk.is_hold();
        self.disk = SimDisk::from_image(image);
        self.disk.set_hold(hold);
        self.generation += 1;
        if self.open(RecoverMode::Quiet) { Ok(()) } else { Err("open failed".into()) }
    }

    pub fn shed_counters(&self) -> (u64, u64) {
        (self.reg.get("buffer_overflow"), self.reg.get("channel_overflow"))
    }

    pub fn full_log(&mut self) -> Vec<(u32, LogRec)> {
        self.sync_log();
        self.log.clone()
    }

    pub fn generation(&self) -> u32 {
        self.generation
    }

    /// Take a crash image now (completed writes + torn pending writes), as a fresh disk image.
    pub fn crash_image(&self, tears: &[(usize, u64)]) -> Vec<Vec<u8>> {
        self.disk.crash_image(tears)
    }

    pub fn pending_len(&self) -> usize {
        self.disk.pending_len()
    }

    pub fn finish(mut self) -> HTrace {
        // let everything that is still in flight finish (io released), so that unresolved lookups are real hangs
        self.disk.set_hold(false);
        let _ = self.drain();
        let _ = self.collect();
        // wind down: drop handles and the cache, drain, drop the runtime
        self.handles.clear();
        self.drop_cache();
        self.disk.set_hold(false);
        let _ = self.drain();
        self.sync_log();
        // An operation that never resolved leaves foyer tasks parked in the runtime (a stalled reclaim, a flusher
        // waiting for a clean block). Dropping the runtime cancels them on this thread, and cancelling a reclaim task
        // re-enters the block manager (its drop handler takes the manager's state lock and spawns the next reclaim,
        // which the shut-down runtime cancels at once - under the same lock): the harness would hang instead of
        // reporting the stall it has already detected. Such a runtime is leaked instead.
        if self.tasks.iter().any(|t| t.resolved_at.is_none()) {
            std::mem::forget(self.rt.take());
        }
        drop(self.rt.take());
        let versions = self.versions.lock().clone();
        HTrace {
            steps: vec![],
            tasks: self.tasks.clone(),
            log: self.log.clone(),
            versions,
            panicked: None,
        }
    }

    pub fn run(cfg: HybCfg, ops: &[HOp]) -> HTrace {
        let mut sim = HybSim::new(cfg);
        let mut steps = Vec::with_capacity(ops.len());
        for op in ops {
            let st = sim.step(op);
            let stop = st.hang.is_some() || matches!(st.ret, HRet::Reopened(false));
            steps.push(st);
            if stop {
                break;
            }
        }
        let mut tr = sim.finish();
        tr.steps = steps;
        tr
    }
}
