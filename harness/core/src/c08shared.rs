//! C08 pieces shared between `check C08` (foyer built without the `serde` feature: hand-written `Code` impls) and the
//! `check-serde` binary (foyer built with `serde`: blanket bincode impl). Included by path from both crates; refers
//! only to `crate::common::{Failure, CaseReport}`.

use std::io::Write;

use foyer_common::{
    code::{Code, StorageKey, StorageValue},
    error::ErrorKind,
    metrics::Metrics,
};
use foyer_storage::{
    Compression,
    verif::{Buffer, Checksummer, EntryDeserializer, EntryHeader, EntrySerializer, IoSliceMut},
};
use proptest::prelude::*;
use serde::{Deserialize, Serialize};

use crate::{
    common::{CaseReport, Failure},
    fmtparse::parse_entry,
};

// ---------------------------------------------------------------------------------------------- (a) Code

#[derive(Clone, Debug, Serialize, Deserialize)]
pub enum Scalar {
    U8(u8),
    U16(u16),
    U32(u32),
    U64(u64),
    /// [hi, lo] (JSON has no 128-bit numbers)
    U128([u64; 2]),
    Usize(usize),
    I8(i8),
    I16(i16),
    I32(i32),
    I64(i64),
    I128([u64; 2]),
    Isize(isize),
    F32(u32),
    F64(u64),
    Bool(bool),
    Str(String),
    Bytes(Vec<u8>),
    BytesBytes(Vec<u8>),
}

pub fn split128(v: u128) -> [u64; 2] {
    [(v >> 64) as u64, v as u64]
}
pub fn join128(p: &[u64; 2]) -> u128 {
    ((p[0] as u128) << 64) | p[1] as u128
}

macro_rules! edge {
    ($t:ty) => {
        prop_oneof![Just(<$t>::MIN), Just(<$t>::MAX), Just(0 as $t), Just(1 as $t), any::<$t>()]
    };
}

pub fn bytes_strategy(max: usize) -> impl Strategy<Value = Vec<u8>> {
    let lens = prop_oneof![
        2 => Just(0usize),
        3 => 1usize..=64,
        3 => prop_oneof![Just(4095usize), Just(4096), Just(4097), Just(4044), Just(4043), Just(4045)],
        // anywhere in the last 70 bytes before a page boundary (header, key and length prefix push the entry across it)
        2 => (1usize..=4, 0usize..=70).prop_map(|(pages, delta)| pages * 4096 - delta),
        2 => 0usize..=max,
    ];
    (lens, any::<u64>(), 0u8..3).prop_map(move |(len, seed, mode)| {
        let len = len.min(max);
        let mut v = Vec::with_capacity(len);
        let mut x = seed | 1;
        for i in 0..len {
            x ^= x << 13;
            x ^= x >> 7;
            x ^= x << 17;
            v.push(match mode {
                0 => (x & 0xff) as u8,                       // incompressible
                1 => ((i / 97) & 0xff) as u8,                // long runs
                _ => if i % 5 == 0 { (x & 0xff) as u8 } else { b'a' }, // mixed
            });
        }
        v
    })
}

pub fn scalar_strategy() -> impl Strategy<Value = Scalar> {
    prop_oneof![
        edge!(u8).prop_map(Scalar::U8),
        edge!(u16).prop_map(Scalar::U16),
        edge!(u32).prop_map(Scalar::U32),
        edge!(u64).prop_map(Scalar::U64),
        edge!(u128).prop_map(|v| Scalar::U128(split128(v))),
        edge!(usize).prop_map(Scalar::Usize),
        edge!(i8).prop_map(Scalar::I8),
        edge!(i16).prop_map(Scalar::I16),
        edge!(i32).prop_map(Scalar::I32),
        edge!(i64).prop_map(Scalar::I64),
        edge!(i128).prop_map(|v| Scalar::I128(split128(v as u128))),
        edge!(isize).prop_map(Scalar::Isize),
        prop_oneof![Just(f32::NAN.to_bits()), Just(0x7fc0_0001u32), Just(0xffc0_0000u32), Just(f32::INFINITY.to_bits()), Just((-0.0f32).to_bits()), any::<u32>()].prop_map(Scalar::F32),
        prop_oneof![Just(f64::NAN.to_bits()), Just(0x7ff8_0000_0000_0001u64), Just(f64::NEG_INFINITY.to_bits()), Just((-0.0f64).to_bits()), any::<u64>()].prop_map(Scalar::F64),
        any::<bool>().prop_map(Scalar::Bool),
        prop_oneof![Just(String::new()), "[ -~]{0,40}", "\\PC{0,40}", Just("\u{10FFFF}\u{1F980}é\u{0}".to_string())].prop_map(Scalar::Str),
        bytes_strategy(20000).prop_map(Scalar::Bytes),
        bytes_strategy(5000).prop_map(Scalar::BytesBytes),
    ]
}

fn rt<T: Code + PartialEq + std::fmt::Debug>(v: &T, name: &str, bitwise_eq: impl Fn(&T, &T) -> bool) -> Result<usize, Failure> {
    let mut buf = vec![];
    v.encode(&mut buf)
        .map_err(|e| Failure::new(format!("code:{name}:encode-error"), format!("{name}: encoding {v:?} into a Vec failed: {e}")))?;
    let mut rd = &buf[..];
    let back = T::decode(&mut rd).map_err(|e| Failure::new(format!("code:{name}:decode-error"), format!("{name}: decoding the encoding of {v:?} failed: {e}")))?;
    if !bitwise_eq(v, &back) {
        return Err(Failure::new(format!("code:{name}:roundtrip-differs"), format!("{name}: {v:?} decodes as {back:?}")));
    }
    if !rd.is_empty() {
        return Err(Failure::new(format!("code:{name}:trailing-bytes"), format!("{name}: decode consumed {} of {} encoded bytes", buf.len() - rd.len(), buf.len())));
    }
    // too-small destination: every cut-off must report a size-limit error, never succeed
    let cuts: Vec<usize> = if buf.len() <= 48 { (0..buf.len()).collect() } else { vec![0, 1, 7, 8, 9, buf.len() / 2, buf.len() - 2, buf.len() - 1] };
    for cut in cuts {
        let mut small = vec![0u8; cut];
        match v.encode(&mut &mut small[..]) {
            Ok(()) => return Err(Failure::new(format!("code:{name}:short-buffer-accepted"), format!("{name}: encoding {} bytes into a {cut}-byte buffer returned Ok", buf.len()))),
            Err(e) if e.kind() == ErrorKind::BufferSizeLimit => {}
            Err(e) => return Err(Failure::new(format!("code:{name}:short-buffer-wrong-error"), format!("{name}: encoding into a {cut}-byte buffer returned {:?} instead of a size-limit error", e.kind()))),
        }
    }
    Ok(buf.len())
}

fn is_edge(s: &Scalar) -> bool {
    macro_rules! e {
        ($v:expr, $t:ty) => {
            *$v == <$t>::MIN || *$v == <$t>::MAX || *$v == 0 as $t || *$v == 1 as $t
        };
    }
    match s {
        Scalar::U8(v) => e!(v, u8),
        Scalar::U16(v) => e!(v, u16),
        Scalar::U32(v) => e!(v, u32),
        Scalar::U64(v) => e!(v, u64),
        Scalar::U128(v) => e!(&join128(v), u128),
        Scalar::Usize(v) => e!(v, usize),
        Scalar::I8(v) => e!(v, i8),
        Scalar::I16(v) => e!(v, i16),
        Scalar::I32(v) => e!(v, i32),
        Scalar::I64(v) => e!(v, i64),
        Scalar::I128(v) => e!(&(join128(v) as i128), i128),
        Scalar::Isize(v) => e!(v, isize),
        _ => false,
    }
}

pub fn exec_scalar(s: &Scalar) -> CaseReport {
    let eq = |a: &_, b: &_| a == b;
    let r = match s {
        Scalar::U8(v) => rt(v, "u8", eq),
        Scalar::U16(v) => rt(v, "u16", |a, b| a == b),
        Scalar::U32(v) => rt(v, "u32", |a, b| a == b),
        Scalar::U64(v) => rt(v, "u64", |a, b| a == b),
        Scalar::U128(v) => rt(&join128(v), "u128", |a, b| a == b),
        Scalar::Usize(v) => rt(v, "usize", |a, b| a == b),
        Scalar::I8(v) => rt(v, "i8", |a, b| a == b),
        Scalar::I16(v) => rt(v, "i16", |a, b| a == b),
        Scalar::I32(v) => rt(v, "i32", |a, b| a == b),
        Scalar::I64(v) => rt(v, "i64", |a, b| a == b),
        Scalar::I128(v) => rt(&(join128(v) as i128), "i128", |a, b| a == b),
        Scalar::Isize(v) => rt(v, "isize", |a, b| a == b),
        Scalar::F32(bits) => rt(&f32::from_bits(*bits), "f32", |a, b| a.to_bits() == b.to_bits()),
        Scalar::F64(bits) => rt(&f64::from_bits(*bits), "f64", |a, b| a.to_bits() == b.to_bits()),
        Scalar::Bool(v) => rt(v, "bool", |a, b| a == b),
        Scalar::Str(v) => rt(v, "String", |a, b| a == b),
        Scalar::Bytes(v) => rt(v, "Vec<u8>", |a, b| a == b),
        Scalar::BytesBytes(v) => rt(&bytes::Bytes::from(v.clone()), "Bytes", |a, b| a == b),
    };
    let nontrivial = match s {
        Scalar::Bytes(v) | Scalar::BytesBytes(v) => v.is_empty() || v.len() >= 4096,
        Scalar::Str(v) => v.is_empty() || !v.is_ascii(),
        Scalar::F32(b) => f32::from_bits(*b).is_nan(),
        Scalar::F64(b) => f64::from_bits(*b).is_nan(),
        Scalar::Bool(_) => true,
        other => is_edge(other),
    };
    CaseReport {
        nontrivial,
        classes: vec![match s {
            Scalar::Str(_) => "String",
            Scalar::Bytes(_) => "Vec<u8>",
            Scalar::BytesBytes(_) => "Bytes",
            Scalar::F32(_) | Scalar::F64(_) => "float",
            Scalar::Bool(_) => "bool",
            _ => "integer",
        }],
        discarded: false,
        failure: r.err(),
        tolerated: vec![],
    }
}

// ------------------------------------------------------------------------------ (b) entry serializer

#[derive(Clone, Debug, Serialize, Deserialize)]
pub enum Kv {
    U64Bytes(u64, Vec<u8>),
    StrStr(String, String),
    BytesU64(Vec<u8>, u64),
    I128F64([u64; 2], u64),
    StrBytes(String, Vec<u8>),
}

#[derive(Clone, Debug, Serialize, Deserialize)]
pub struct SerCase {
    pub kv: Kv,
    pub compression: u8,
    /// extra cut-off positions (in addition to the enumerated ones)
    pub cuts: Vec<u16>,
    pub hash: u64,
    pub sequence: u64,
}

pub fn ser_case() -> impl Strategy<Value = SerCase> {
    let kv = prop_oneof![
        4 => (any::<u64>(), bytes_strategy(70000)).prop_map(|(k, v)| Kv::U64Bytes(k, v)),
        2 => ("\\PC{0,20}", "\\PC{0,200}").prop_map(|(k, v)| Kv::StrStr(k, v)),
        1 => (bytes_strategy(300), any::<u64>()).prop_map(|(k, v)| Kv::BytesU64(k, v)),
        1 => (any::<i128>(), any::<u64>()).prop_map(|(k, v)| Kv::I128F64(split128(k as u128), v)),
        2 => ("[a-z]{0,12}", bytes_strategy(9000)).prop_map(|(k, v)| Kv::StrBytes(k, v)),
    ];
    (kv, 0u8..3, prop::collection::vec(any::<u16>(), 0..6), any::<u64>(), any::<u64>()).prop_map(|(kv, compression, cuts, hash, sequence)| SerCase {
        kv,
        compression,
        cuts,
        hash,
        sequence,
    })
}

pub fn comp(c: u8) -> Compression {
    match c {
        1 => Compression::Zstd,
        2 => Compression::Lz4,
        _ => Compression::None,
    }
}

struct Counting<W> {
    inner: W,
    n: usize,
}
impl<W: Write> Write for Counting<W> {
    fn write(&mut self, buf: &[u8]) -> std::io::Result<usize> {
        let n = self.inner.write(buf)?;
        self.n += n;
        Ok(n)
    }
    fn flush(&mut self) -> std::io::Result<()> {
        self.inner.flush()
    }
}

fn ser_rt<K, V>(k: &K, v: &V, case: &SerCase, eqv: impl Fn(&V, &V) -> bool, flags: &mut SerFlags) -> Result<(), Failure>
where
    K: StorageKey + PartialEq + std::fmt::Debug,
    V: StorageValue + std::fmt::Debug,
{
    let c = comp(case.compression);
    let cname = ["none", "zstd", "lz4"][case.compression as usize % 3];
    // 1. serialize into an unbounded buffer through an independent counting writer
    let mut w = Counting { inner: Vec::new(), n: 0 };
    let info = EntrySerializer::serialize(k, v, c, &mut w)
        .map_err(|e| Failure::new(format!("ser:{cname}:serialize-error"), format!("serializing into a Vec failed: {e}")))?;
    let bytes = w.inner;
    if info.key_len + info.value_len != w.n || w.n != bytes.len() {
        return Err(Failure::new(
            format!("ser:{cname}:kvinfo-lengths"),
            format!("KvInfo says key {} + value {} bytes, {} bytes were written", info.key_len, info.value_len, w.n),
        ));
    }
    // 2. deserialize
    let checksum = Checksummer::checksum64(&bytes);
    let (k2, v2) = EntryDeserializer::deserialize::<K, V>(&bytes, info.key_len, info.value_len, c, Some(checksum))
        .map_err(|e| Failure::new(format!("ser:{cname}:deserialize-error"), format!("deserializing what was serialized failed: {e}")))?;
    if &k2 != k || !eqv(v, &v2) {
        return Err(Failure::new(format!("ser:{cname}:roundtrip-differs"), format!("entry ({k:?}, {v:?}) round-trips as ({k2:?}, {v2:?})")));
    }
    // 3. every cut-off of the destination: size-limit error, never a partial success
    let need = bytes.len();
    let mut cuts: Vec<usize> = if need <= 200 { (0..need).collect() } else { (0..24).chain(need - 24..need).collect() };
    for c16 in &case.cuts {
        if need > 0 {
            cuts.push((*c16 as usize * need) >> 16);
        }
    }
    for cut in cuts {
        let mut small = vec![0u8; cut];
        match EntrySerializer::serialize(k, v, c, &mut small[..]) {
            Ok(i) => {
                return Err(Failure::new(
                    format!("ser:{cname}:short-buffer-accepted"),
                    format!("serializing an entry that needs {need} bytes into a {cut}-byte buffer returned Ok (key_len {}, value_len {})", i.key_len, i.value_len),
                ));
            }
            Err(e) if e.kind() == ErrorKind::BufferSizeLimit => {}
            Err(e) => {
                return Err(Failure::new(
                    format!("ser:{cname}:short-buffer-wrong-error"),
                    format!("serializing an entry that needs {need} bytes into a {cut}-byte buffer returned {:?} ({e}) instead of a size-limit error", e.kind()),
                ));
            }
        }
        flags.cuts += 1;
        if case.compression != 0 && (cut < 16 || cut + 16 > need) {
            flags.cut_in_frame_edges = true;
        }
    }
    // 4. the flusher's Buffer: header lengths == bytes actually written, independent parse agrees
    let aligned = (36 + need).div_ceil(4096) * 4096;
    let mut buffer = Buffer::new(IoSliceMut::new(aligned + 4096), aligned + 4096, std::sync::Arc::new(Metrics::noop()));
    if !buffer.push(k, v, case.hash, c, case.sequence) {
        return Err(Failure::new(format!("ser:{cname}:buffer-refused"), format!("Buffer::push refused an entry of {need} payload bytes although the buffer has {} bytes", aligned + 4096)));
    }
    let (io, infos) = buffer.finish();
    let e = &infos[0];
    if e.len != 36 + need || e.offset != 0 {
        return Err(Failure::new(format!("ser:{cname}:buffer-entry-len"), format!("Buffer reports entry len {} at {}, expected {}", e.len, e.offset, 36 + need)));
    }
    let header = EntryHeader::read(&io[..36]).map_err(|e| Failure::new(format!("ser:{cname}:header-unreadable"), format!("{e}")))?;
    if header.key_len as usize != info.key_len || header.value_len as usize != info.value_len || header.hash != case.hash || header.sequence != case.sequence || header.compression != c {
        return Err(Failure::new(format!("ser:{cname}:header-fields"), format!("header {header:?} does not describe the entry (key_len {}, value_len {})", info.key_len, info.value_len)));
    }
    match parse_entry(&io[..e.len]) {
        Some(p) if p.checksum_ok && p.len == e.len && p.hash == case.hash && p.sequence == case.sequence => {}
        other => {
            return Err(Failure::new(
                format!("ser:{cname}:independent-parse"),
                format!("the independent format reader sees {:?} where Buffer::push wrote the entry", other.map(|p| (p.hash, p.sequence, p.len, p.checksum_ok))),
            ));
        }
    }
    // 5. two entries in one flush buffer: the second starts at the next page boundary behind the first (header
    //    included), and writing it leaves the first one intact
    let mut buffer = Buffer::new(IoSliceMut::new(2 * aligned + 4096), 2 * aligned + 4096, std::sync::Arc::new(Metrics::noop()));
    if !buffer.push(k, v, case.hash, c, case.sequence) || !buffer.push(k, v, case.hash ^ 1, c, case.sequence.wrapping_add(1)) {
        return Err(Failure::new(format!("ser:{cname}:buffer-refused"), format!("Buffer::push refused the second of two entries of {need} payload bytes although the buffer has room for both")));
    }
    let (io, infos) = buffer.finish();
    if infos.len() != 2 || infos[0].offset != 0 || infos[1].offset != aligned || infos[1].len != 36 + need {
        return Err(Failure::new(
            format!("ser:{cname}:second-entry-position"),
            format!("two entries of {} bytes (header included) pushed into one buffer are reported at {:?}; the second must start at {aligned}", 36 + need, infos.iter().map(|i| (i.offset, i.len)).collect::<Vec<_>>()),
        ));
    }
    for (i, e) in infos.iter().enumerate() {
        match parse_entry(&io[e.offset..e.offset + e.len]) {
            Some(p) if p.checksum_ok && p.len == e.len && p.sequence == case.sequence.wrapping_add(i as u64) => {}
            other => {
                return Err(Failure::new(
                    format!("ser:{cname}:entry-damaged-by-neighbour"),
                    format!("after pushing two entries the independent format reader sees {:?} at the position of entry {i}", other.map(|p| (p.hash, p.sequence, p.len, p.checksum_ok))),
                ));
            }
        }
    }
    Ok(())
}

#[derive(Default)]
struct SerFlags {
    cuts: usize,
    cut_in_frame_edges: bool,
}

pub fn exec_ser(case: &SerCase) -> CaseReport {
    let mut flags = SerFlags::default();
    let r = match &case.kv {
        Kv::U64Bytes(k, v) => ser_rt(k, v, case, |a, b| a == b, &mut flags),
        Kv::StrStr(k, v) => ser_rt(k, v, case, |a, b| a == b, &mut flags),
        Kv::BytesU64(k, v) => ser_rt(k, v, case, |a, b| a == b, &mut flags),
        Kv::I128F64(k, bits) => ser_rt(&(join128(k) as i128), &f64::from_bits(*bits), case, |a, b| a.to_bits() == b.to_bits(), &mut flags),
        Kv::StrBytes(k, v) => ser_rt(k, v, case, |a, b| a == b, &mut flags),
    };
    let vlen = match &case.kv {
        Kv::U64Bytes(_, v) | Kv::StrBytes(_, v) => v.len(),
        Kv::StrStr(_, v) => v.len(),
        _ => 8,
    };
    let mut classes = vec![["none", "zstd", "lz4"][case.compression as usize % 3]];
    if vlen >= 4096 {
        classes.push("value>=1page");
    }
    if vlen == 0 {
        classes.push("empty-value");
    }
    if flags.cut_in_frame_edges {
        classes.push("cut-inside-compressor-frame-edge");
    }
    CaseReport {
        nontrivial: vlen >= 4096 || vlen == 0 || flags.cut_in_frame_edges,
        classes,
        discarded: false,
        failure: r.err(),
        tolerated: vec![],
    }
}

