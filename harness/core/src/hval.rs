//! Value scheme for the hybrid engine: every value carries (key, version, length) and a keyed fill, so that a stale
//! version, a foreign key's value, a truncated value and garbage are distinguishable outcomes.

use serde::{Deserialize, Serialize};

pub const VMAGIC: u32 = 0x5646_5921; // "VFY!"
pub const VHDR: usize = 4 + 8 + 8 + 4 + 1;

fn mix(mut x: u64) -> u64 {
    x ^= x >> 33;
    x = x.wrapping_mul(0xff51_afd7_ed55_8ccd);
    x ^= x >> 33;
    x = x.wrapping_mul(0xc4ce_b9fe_1a85_ec53);
    x ^= x >> 33;
    x
}

fn fill_byte(key: u64, version: u64, compressible: bool, i: usize) -> u8 {
    if compressible {
        // long runs: compresses well
        (mix(key ^ version.rotate_left(20) ^ ((i / 509) as u64)) & 0xff) as u8
    } else {
        (mix(key.wrapping_mul(0x9E37_79B9) ^ version.rotate_left(32) ^ (i as u64).wrapping_mul(0x1000_0000_01B3)) & 0xff) as u8
    }
}

/// Build the value bytes for (key, version) with total length `len`.
pub fn make_value(key: u64, version: u64, len: usize, compressible: bool) -> Vec<u8> {
    let mut v = Vec::with_capacity(len);
    if len >= VHDR {
        v.extend_from_slice(&VMAGIC.to_le_bytes());
        v.extend_from_slice(&key.to_le_bytes());
        v.extend_from_slice(&version.to_le_bytes());
        v.extend_from_slice(&(len as u32).to_le_bytes());
        v.push(u8::from(compressible));
        for i in VHDR..len {
            v.push(fill_byte(key, version, compressible, i));
        }
    } else {
        // tiny value: no room for a header, content is still keyed
        for i in 0..len {
            v.push(fill_byte(key, version, false, i));
        }
    }
    v
}

#[derive(Clone, Debug, PartialEq, Eq, Serialize, Deserialize)]
pub enum Decoded {
    /// a complete, bit-exact value of (key, version)
    Valid { key: u64, version: u64 },
    /// too short to carry a header: caller must compare against candidate versions with `is_tiny_of`
    Tiny { len: usize },
    /// not a value this harness ever produced
    Garbage { why: String },
}

pub fn decode_value(bytes: &[u8]) -> Decoded {
    if bytes.len() < VHDR {
        return Decoded::Tiny { len: bytes.len() };
    }
    let magic = u32::from_le_bytes(bytes[0..4].try_into().unwrap());
    if magic != VMAGIC {
        return Decoded::Garbage { why: format!("bad value magic {magic:#x}") };
    }
    let key = u64::from_le_bytes(bytes[4..12].try_into().unwrap());
    let version = u64::from_le_bytes(bytes[12..20].try_into().unwrap());
    let len = u32::from_le_bytes(bytes[20..24].try_into().unwrap()) as usize;
    let compressible = bytes[24] != 0;
    if len != bytes.len() {
        return Decoded::Garbage {
            why: format!("value of key {key} version {version} has length {} but header says {len} (truncated / padded)", bytes.len()),
        };
    }
    for i in VHDR..len {
        if bytes[i] != fill_byte(key, version, compressible, i) {
            return Decoded::Garbage {
                why: format!("value of key {key} version {version} differs from what was stored at byte {i}"),
            };
        }
    }
    Decoded::Valid { key, version }
}

pub fn is_tiny_of(bytes: &[u8], key: u64, version: u64) -> bool {
    bytes.len() < VHDR && bytes.iter().enumerate().all(|(i, b)| *b == fill_byte(key, version, false, i))
}
