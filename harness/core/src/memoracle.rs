//! Oracles over memsim traces: accounting and capacity bound (C05), leave notifications and pipe hand-off (C13),
//! handle pinning / outdatedness (C18). One pass builds an event-driven reference model; every violated clause is
//! recorded with the property it belongs to, and each check reports only its own clauses.
//!
//! The model never predicts *which* entry is evicted (that is C14's job); it learns victims from the listener's
//! events and checks that each one was permitted (necessary, not pinned, right reason, notified once).

use std::collections::{BTreeMap, HashMap};

use crate::{
    common::Failure,
    memsim::{Ev, MemCfg, MemOp, PipeEv, Reason, Ret, Step, Trace},
};

#[derive(Clone, Copy, Debug, PartialEq, Eq)]
pub enum Prop {
    C05,
    C13,
    C18,
    /// model/trace disagreement that is not attributable to one clause (reported by every check)
    Any,
}

#[derive(Clone, Debug, Default)]
pub struct Flags {
    pub weighted_replace: bool,
    pub clear_then_insert: bool,
    pub resize_below_usage_with_handle: bool,
    pub multi_evict_insert: bool,
    pub any_replace: bool,
    pub any_remove: bool,
    pub any_capacity_evict: bool,
    pub phantom_outlives_op: bool,
    pub phantom_any: bool,
    pub pinned_survived_round: bool,
    pub pinned_released_then_evicted: bool,
    pub handle_outlived_entry: bool,
    pub evict_all_or_flush: bool,
    pub cache_drop_with_residents: bool,
    pub over_capacity_pinned: bool,
    pub touch_hit: bool,
}

#[derive(Clone, Debug)]
struct Rec {
    key: u64,
    weight: usize,
    admitted: bool,
    refs: usize,
    /// LRU: looked up since the last time refs was 0
    pinned: bool,
    resident: bool,
    leaves: Vec<Reason>,
    piped: usize,
    survived_round_while_pinned: bool,
    was_pinned_then_released: bool,
    phantom_seen_other_op: bool,
}

pub struct Judgement {
    pub failures: Vec<(Prop, Failure)>,
    pub flags: Flags,
}

impl Judgement {
    pub fn first_for(&self, p: Prop) -> Option<Failure> {
        self.failures
            .iter()
            .find(|(q, _)| *q == p || *q == Prop::Any)
            .map(|(_, f)| f.clone())
    }
}

struct Model<'a> {
    cfg: &'a MemCfg,
    capacity: usize,
    recs: HashMap<u64, Rec>,
    resident: BTreeMap<u64, u64>,
    failures: Vec<(Prop, Failure)>,
    flags: Flags,
    cleared_before: bool,
    /// handle slot -> id (mirrors memsim's handle table)
    slots: Vec<Option<u64>>,
    /// id -> key for every insert of the trace (epilogue inserts included)
    pending_keys: HashMap<u64, u64>,
}

fn opname(op: Option<&MemOp>) -> &'static str {
    match op {
        None => "Epilogue",
        Some(MemOp::Insert { admit: false, .. }) => "InsertRejected",
        Some(MemOp::Insert { .. }) => "Insert",
        Some(MemOp::Get { .. }) => "Get",
        Some(MemOp::Touch { .. }) => "Touch",
        Some(MemOp::Contains { .. }) => "Contains",
        Some(MemOp::CloneHandle { .. }) => "CloneHandle",
        Some(MemOp::DropHandle { .. }) => "DropHandle",
        Some(MemOp::Remove { .. }) => "Remove",
        Some(MemOp::Clear) => "Clear",
        Some(MemOp::Resize { .. }) => "Resize",
        Some(MemOp::EvictAll) => "EvictAll",
        Some(MemOp::Flush) => "Flush",
        Some(MemOp::FetchReady { .. }) | Some(MemOp::FetchPending { .. }) | Some(MemOp::FetchFail { .. }) => "Fetch",
    }
}

impl<'a> Model<'a> {
    fn fail(&mut self, p: Prop, sig: &str, msg: String) {
        // keep the list short; first failures matter
        if self.failures.len() < 32 {
            self.failures.push((p, Failure::new(sig, msg)));
        }
    }

    fn shard_cap(&self, s: usize) -> usize {
        self.capacity / self.cfg.shards + usize::from(s < self.capacity % self.cfg.shards)
    }

    fn shard_usage(&self, s: usize) -> usize {
        self.resident
            .iter()
            .filter(|(k, _)| self.cfg.shard_of(**k) == s)
            .map(|(_, id)| self.recs[id].weight)
            .sum()
    }

    fn others_all_pinned(&self, s: usize, except: Option<u64>) -> bool {
        self.resident
            .iter()
            .filter(|(k, _)| self.cfg.shard_of(**k) == s)
            .filter(|(_, id)| Some(**id) != except)
            .all(|(_, id)| self.cfg.algo.is_lru() && self.recs[id].pinned)
    }

    fn leave(&mut self, step: usize, ev: &Ev, expect: &[Reason], ctx: &str) {
        let Some(rec) = self.recs.get(&ev.id) else {
            self.fail(
                Prop::C13,
                "leave-unknown-id",
                format!("step {step} ({ctx}): leave notification for unknown entry id {} key {}", ev.id, ev.key),
            );
            return;
        };
        let admitted = rec.admitted;
        let prior = rec.leaves.clone();
        if rec.key != ev.key || rec.weight != ev.weight {
            self.fail(
                Prop::C13,
                "leave-wrong-entry",
                format!("step {step} ({ctx}): notification carries key {} weight {} for entry #{}", ev.key, ev.weight, ev.id),
            );
        }
        if admitted && !prior.is_empty() {
            self.fail(
                Prop::C13,
                &format!("double-notify:{:?}+{:?}", prior[0], ev.reason),
                format!(
                    "step {step} ({ctx}): entry #{} (key {}) notified again as {:?}; earlier notifications {:?}",
                    ev.id, ev.key, ev.reason, prior
                ),
            );
        }
        if !expect.contains(&ev.reason) {
            self.fail(
                Prop::C13,
                &format!("wrong-reason:{:?}@{ctx}", ev.reason),
                format!(
                    "step {step} ({ctx}): entry #{} (key {}) left with reason {:?}, permitted here: {:?}",
                    ev.id, ev.key, ev.reason, expect
                ),
            );
        }
        self.recs.get_mut(&ev.id).unwrap().leaves.push(ev.reason);
    }

    /// Remove a resident record from the model because of a leave event.
    fn unresident(&mut self, step: usize, ev: &Ev, ctx: &str) -> bool {
        match self.resident.get(&ev.key) {
            Some(id) if *id == ev.id => {
                self.resident.remove(&ev.key);
                let r = self.recs.get_mut(&ev.id).unwrap();
                r.resident = false;
                true
            }
            _ => {
                self.fail(
                    Prop::C13,
                    &format!("leave-of-non-resident@{ctx}"),
                    format!(
                        "step {step} ({ctx}): {:?} notification for entry #{} key {} which was not the resident entry of that key",
                        ev.reason, ev.id, ev.key
                    ),
                );
                false
            }
        }
    }

    /// A capacity eviction in shard `s` with target: evict only while `usage > limit`.
    fn capacity_evict(&mut self, step: usize, ev: &Ev, s: usize, need: impl Fn(usize) -> bool, ctx: &str) {
        if self.cfg.shard_of(ev.key) != s {
            self.fail(
                Prop::C05,
                &format!("evict-other-shard@{ctx}"),
                format!("step {step} ({ctx}): evicted key {} lives in shard {} but the operation targets shard {s}", ev.key, self.cfg.shard_of(ev.key)),
            );
        }
        let u = self.shard_usage(self.cfg.shard_of(ev.key));
        if !need(u) {
            self.fail(
                Prop::C05,
                &format!("unnecessary-eviction@{ctx}"),
                format!(
                    "step {step} ({ctx}): entry #{} (key {}, weight {}) evicted although shard usage {u} (cap {}) no longer required it",
                    ev.id,
                    ev.key,
                    ev.weight,
                    self.shard_cap(self.cfg.shard_of(ev.key))
                ),
            );
        }
        if let Some(rec) = self.recs.get(&ev.id).cloned() {
            if self.cfg.algo.is_lru() && rec.pinned && rec.refs > 0 {
                self.fail(
                    Prop::C18,
                    &format!("pinned-evicted@{ctx}"),
                    format!(
                        "step {step} ({ctx}): LRU evicted entry #{} (key {}) while it was looked up and still held ({} handles)",
                        ev.id, ev.key, rec.refs
                    ),
                );
            }
            if rec.was_pinned_then_released {
                self.flags.pinned_released_then_evicted = true;
            }
        }
        self.flags.any_capacity_evict = true;
        // every other pinned resident of that shard survived an eviction round
        let sh = self.cfg.shard_of(ev.key);
        let ids: Vec<u64> = self
            .resident
            .iter()
            .filter(|(k, id)| self.cfg.shard_of(**k) == sh && **id != ev.id)
            .map(|(_, id)| *id)
            .collect();
        for id in ids {
            let r = self.recs.get_mut(&id).unwrap();
            if r.pinned && r.refs > 0 {
                r.survived_round_while_pinned = true;
                self.flags.pinned_survived_round = true;
            }
        }
        self.leave(step, ev, &[Reason::Evict], ctx);
        self.unresident(step, ev, ctx);
    }

    fn dec_ref(&mut self, step: usize, id: u64, events: &mut Vec<Ev>, piped: &mut Vec<u64>, ctx: &str) {
        let rec = self.recs.get_mut(&id).unwrap();
        if rec.refs == 0 {
            self.fail(Prop::Any, "model-refs-underflow", format!("step {step}: model refs underflow for #{id}"));
            return;
        }
        rec.refs -= 1;
        if rec.refs == 0 {
            if rec.pinned {
                rec.was_pinned_then_released = rec.survived_round_while_pinned;
            }
            rec.pinned = false;
            if !rec.admitted {
                // disk-only entry: last handle gone => offered to the disk tier now (Evict + pipe)
                if let Some(pos) = events.iter().position(|e| e.id == id && e.reason == Reason::Evict) {
                    let ev = events.remove(pos);
                    self.recs.get_mut(&id).unwrap().leaves.push(ev.reason);
                } else {
                    self.fail(
                        Prop::C13,
                        "disk-only-drop-not-notified",
                        format!("step {step} ({ctx}): last handle of disk-only entry #{id} dropped without an Evict notification"),
                    );
                }
                if self.cfg.pipe {
                    if let Some(pos) = piped.iter().position(|p| *p == id) {
                        piped.remove(pos);
                        self.recs.get_mut(&id).unwrap().piped += 1;
                    } else {
                        self.fail(
                            Prop::C13,
                            "disk-only-drop-not-piped",
                            format!("step {step} ({ctx}): last handle of disk-only entry #{id} dropped but it was not offered to the disk tier"),
                        );
                    }
                }
            }
        }
    }

    fn step(&mut self, idx: usize, op: Option<&MemOp>, epilogue_insert_shard: Option<usize>, st: &Step, slot_effect: SlotEffect) {
        let ctx = opname(op);
        let mut events: Vec<Ev> = st.events.clone();
        let mut piped: Vec<u64> = st
            .piped
            .iter()
            .flat_map(|p| match p {
                PipeEv::Send(id) => vec![*id],
                PipeEv::Flush(ids) => ids.clone(),
            })
            .collect();
        let evict_ids_before: Vec<u64> = events.iter().filter(|e| e.reason == Reason::Evict).map(|e| e.id).collect();
        let piped_before = piped.clone();

        // phantom bookkeeping: any op on the same key while a disk-only entry is held
        if let Some(k) = op_key(op) {
            let ids: Vec<u64> = self
                .recs
                .iter()
                .filter(|(_, r)| !r.admitted && r.refs > 0 && r.key == k)
                .map(|(id, _)| *id)
                .collect();
            for id in ids {
                self.recs.get_mut(&id).unwrap().phantom_seen_other_op = true;
                self.flags.phantom_outlives_op = true;
            }
        }

        let all_events: Vec<Ev> = events.clone();
        match (op, &st.ret) {
            (Some(MemOp::Insert { k, w, admit, hold, .. }), Ret::Inserted { id }) => {
                self.insert(idx, *k as u64, *w as usize, *admit, *hold, *id, &mut events, &mut piped, ctx, slot_effect);
            }
            (None, Ret::Inserted { id }) => {
                // epilogue insert (weight 0, fresh key, dropped at once)
                let s = epilogue_insert_shard.unwrap();
                let key = self.epilogue_key(*id);
                self.insert(idx, key, 0, true, false, *id, &mut events, &mut piped, "EpilogueInsert", SlotEffect::None);
                let u = self.shard_usage(s);
                let cap = self.shard_cap(s);
                if u > cap {
                    self.fail(
                        Prop::C18,
                        "leak-over-capacity-without-handles",
                        format!("epilogue: no handle is outstanding, yet after an insert shard {s} holds weight {u} > capacity {cap}"),
                    );
                }
            }
            (Some(MemOp::Get { k }), Ret::Got(got)) => {
                let k = *k as u64;
                let want = self.resident.get(&k).copied();
                if *got != want {
                    self.fail(
                        Prop::Any,
                        "get-disagrees-with-model",
                        format!("step {idx}: get({k}) returned entry {:?}, model's resident entry is {:?}", got, want),
                    );
                }
                if let Some(id) = got {
                    if let Some(r) = self.recs.get_mut(id) {
                        r.refs += 1;
                        r.pinned = true;
                    }
                    if let SlotEffect::Push = slot_effect {
                        self.slots.push(Some(*id));
                    }
                }
            }
            (Some(MemOp::FetchReady { k, w, hold }), Ret::Got(Some(id))) => {
                // get_or_fetch with an origin that is ready at once: a memory hit behaves like a lookup (the handle is
                // kept or dropped at once), a miss like an insert of the fetched value
                let k = *k as u64;
                if self.resident.get(&k) == Some(id) {
                    let r = self.recs.get_mut(id).unwrap();
                    if *hold {
                        r.refs += 1;
                        r.pinned = true;
                        if let SlotEffect::Push = slot_effect {
                            self.slots.push(Some(*id));
                        }
                    } else if r.refs > 0 {
                        r.pinned = true;
                    }
                } else if self.recs.contains_key(id) {
                    self.fail(
                        Prop::Any,
                        "fetch-returned-non-resident-entry",
                        format!("step {idx}: get_or_fetch({k}) returned entry #{id}, which is not the resident entry of that key ({:?})", self.resident.get(&k)),
                    );
                } else {
                    self.insert(idx, k, *w as usize, true, *hold, *id, &mut events, &mut piped, ctx, slot_effect);
                }
            }
            (Some(MemOp::Touch { k }), Ret::Bool(b)) => {
                let k = *k as u64;
                if *b != self.resident.contains_key(&k) {
                    self.fail(Prop::Any, "touch-disagrees-with-model", format!("step {idx}: touch({k}) = {b}, model says resident = {}", !b));
                }
                if *b {
                    self.flags.touch_hit = true;
                    // touch is a lookup: if a handle to the entry is still held, the entry is now "looked up and
                    // held" (unevictable under LRU) until the last handle goes; with no handle it is released at once.
                    if let Some(id) = self.resident.get(&k).copied() {
                        let r = self.recs.get_mut(&id).unwrap();
                        if r.refs > 0 {
                            r.pinned = true;
                        }
                    }
                }
            }
            (Some(MemOp::Contains { k }), Ret::Bool(b)) => {
                let k = *k as u64;
                if *b != self.resident.contains_key(&k) {
                    self.fail(Prop::Any, "contains-disagrees-with-model", format!("step {idx}: contains({k}) = {b}, model says {}", !b));
                }
            }
            (Some(MemOp::CloneHandle { .. }), Ret::Cloned(idopt)) => {
                if let Some(id) = idopt {
                    self.recs.get_mut(id).unwrap().refs += 1;
                    self.slots.push(Some(*id));
                }
            }
            (Some(MemOp::DropHandle { .. }), Ret::Dropped(idopt)) | (None, Ret::Dropped(idopt)) => {
                if let Some(id) = idopt {
                    // find the slot
                    if let Some(pos) = self.slots.iter().position(|s| *s == Some(*id)) {
                        // memsim drops a specific slot; any slot with this id is equivalent for the model
                        self.slots[pos] = None;
                    }
                    self.dec_ref(idx, *id, &mut events, &mut piped, ctx);
                }
            }
            (Some(MemOp::Remove { k, hold }), Ret::Removed(idopt)) => {
                let k = *k as u64;
                let want = self.resident.get(&k).copied();
                if *idopt != want {
                    self.fail(
                        Prop::Any,
                        "remove-disagrees-with-model",
                        format!("step {idx}: remove({k}) returned {:?}, model's resident entry is {:?}", idopt, want),
                    );
                }
                if let Some(id) = idopt {
                    self.flags.any_remove = true;
                    if let Some(pos) = events.iter().position(|e| e.id == *id) {
                        let ev = events.remove(pos);
                        self.leave(idx, &ev, &[Reason::Remove], ctx);
                        self.unresident(idx, &ev, ctx);
                    } else {
                        self.fail(Prop::C13, "remove-not-notified", format!("step {idx}: remove({k}) took entry #{id} out without a notification"));
                        self.resident.remove(&k);
                    }
                    if *hold {
                        self.recs.get_mut(id).unwrap().refs += 1;
                        self.slots.push(Some(*id));
                    }
                }
            }
            (Some(MemOp::Clear), _) | (None, Ret::None) => {
                // clear or cache drop: every resident leaves with Clear
                let is_drop = op.is_none();
                if is_drop && !self.resident.is_empty() {
                    self.flags.cache_drop_with_residents = true;
                }
                let ids: Vec<(u64, u64)> = self.resident.iter().map(|(k, id)| (*k, *id)).collect();
                for (k, id) in ids {
                    if let Some(pos) = events.iter().position(|e| e.id == id) {
                        let ev = events.remove(pos);
                        self.leave(idx, &ev, &[Reason::Clear], if is_drop { "CacheDrop" } else { ctx });
                        self.unresident(idx, &ev, ctx);
                    } else {
                        self.fail(
                            Prop::C13,
                            if is_drop { "cache-drop-not-notified" } else { "clear-not-notified" },
                            format!("step {idx} ({ctx}): resident entry #{id} (key {k}) got no Clear notification"),
                        );
                        self.resident.remove(&k);
                    }
                }
                if !is_drop {
                    self.cleared_before = true;
                    if st.usage != 0 || st.entries != 0 {
                        self.fail(
                            Prop::C05,
                            "clear-leaves-usage",
                            format!("step {idx}: after clear() usage() = {} and entries() = {} (both must be 0)", st.usage, st.entries),
                        );
                    }
                }
            }
            (Some(MemOp::Resize { c }), Ret::ResizeOk(ok)) => {
                if !*ok {
                    self.fail(Prop::Any, "resize-error", format!("step {idx}: resize({c}) returned an error"));
                } else {
                    self.capacity = *c as usize;
                    let held = self.recs.values().any(|r| r.refs > 0 && r.resident);
                    for s in 0..self.cfg.shards {
                        let cap = self.shard_cap(s);
                        if self.shard_usage(s) > cap && held {
                            self.flags.resize_below_usage_with_handle = true;
                        }
                        let evs: Vec<Ev> = events.iter().filter(|e| self.cfg.shard_of(e.key) == s).cloned().collect();
                        events.retain(|e| self.cfg.shard_of(e.key) != s);
                        for ev in evs {
                            self.capacity_evict(idx, &ev, s, |u| u > cap, ctx);
                        }
                        self.bound(idx, s, None, ctx);
                    }
                }
            }
            (Some(MemOp::EvictAll), _) | (Some(MemOp::Flush), _) => {
                self.flags.evict_all_or_flush = true;
                for s in 0..self.cfg.shards {
                    let evs: Vec<Ev> = events.iter().filter(|e| self.cfg.shard_of(e.key) == s).cloned().collect();
                    events.retain(|e| self.cfg.shard_of(e.key) != s);
                    for ev in evs {
                        self.capacity_evict(idx, &ev, s, |u| u > 0, ctx);
                    }
                }
            }
            (o, r) => {
                self.fail(Prop::Any, "harness-trace-shape", format!("step {idx}: unexpected (op, ret) = ({o:?}, {r:?})"));
            }
        }

        // findable-during-notification clause: while an entry's leave notification runs, a lookup of its key must not
        // find *that entry*. contains(key) inside the callback is key-granular, so it only counts when the model's
        // resident entry of that key after this operation is not a different (newer) entry.
        for ev in &all_events {
            if ev.contains_in_cb == Some(true) {
                let newer = matches!(self.resident.get(&ev.key), Some(id) if *id != ev.id);
                if !newer {
                    self.fail(
                        Prop::C13,
                        &format!("findable-during-notification@{ctx}"),
                        format!("step {idx} ({ctx}): key {} was still findable inside the {:?} notification of entry #{}", ev.key, ev.reason, ev.id),
                    );
                }
            }
        }

        // leftovers
        for ev in &events {
            self.fail(
                Prop::C13,
                &format!("unexpected-notification:{:?}@{ctx}", ev.reason),
                format!("step {idx} ({ctx}): unexpected {:?} notification for entry #{} key {}", ev.reason, ev.id, ev.key),
            );
            // keep the model in sync as well as possible
            if self.resident.get(&ev.key) == Some(&ev.id) {
                self.resident.remove(&ev.key);
            }
            if let Some(r) = self.recs.get_mut(&ev.id) {
                r.leaves.push(ev.reason);
            }
        }

        // pipe clause: offered == Evict-notified, one each
        if self.cfg.pipe {
            let mut a = evict_ids_before.clone();
            let mut b = piped_before.clone();
            a.sort();
            b.sort();
            if a != b {
                self.fail(
                    Prop::C13,
                    &format!("pipe-mismatch@{ctx}"),
                    format!("step {idx} ({ctx}): entries offered to the disk tier {b:?} != entries that left by eviction {a:?}"),
                );
            }
            for id in &piped_before {
                let mut n = 0;
                if let Some(r) = self.recs.get_mut(id) {
                    if r.admitted {
                        r.piped += 1;
                    }
                    n = r.piped;
                }
                if n > 1 {
                    self.fail(Prop::C13, "piped-twice", format!("step {idx} ({ctx}): entry #{id} offered to the disk tier {n} times"));
                }
            }
        }

        // state clauses
        let mut want_contains = 0u32;
        for k in self.resident.keys() {
            if *k < self.cfg.universe as u64 {
                want_contains |= 1 << k;
            }
        }
        if op.is_some() || epilogue_insert_shard.is_some() || matches!(st.ret, Ret::Dropped(_)) {
            if st.contains != want_contains {
                self.fail(
                    Prop::Any,
                    &format!("contains-set-mismatch@{ctx}"),
                    format!("step {idx} ({ctx}): contains over universe = {:#b}, model resident set = {:#b}", st.contains, want_contains),
                );
            }
            let usage: usize = self.resident.values().map(|id| self.recs[id].weight).sum();
            if st.usage != usage {
                self.fail(
                    Prop::C05,
                    &format!("usage-mismatch{}", if self.cleared_before { "-after-clear" } else { "" }),
                    format!("step {idx} ({ctx}): usage() = {} but the entries a lookup can find weigh {usage}", st.usage),
                );
            }
            if st.entries != self.resident.len() {
                self.fail(
                    Prop::C05,
                    &format!("entries-mismatch{}", if self.cleared_before { "-after-clear" } else { "" }),
                    format!("step {idx} ({ctx}): entries() = {} but {} entries are findable", st.entries, self.resident.len()),
                );
            }
        }
        for h in &st.handles {
            if !h.intact {
                self.fail(Prop::C18, "handle-changed", format!("step {idx} ({ctx}): handle slot {} (entry #{}) no longer reads its original key/value/weight", h.slot, h.id));
            }
            let current = self.resident.get(&h.key) == Some(&h.id);
            if h.outdated == current {
                self.fail(
                    Prop::C18,
                    &format!("is-outdated-wrong:{}", if h.outdated { "true-but-current" } else { "false-but-gone" }),
                    format!(
                        "step {idx} ({ctx}): handle of entry #{} (key {}) reports is_outdated() = {} but a lookup {} return this entry",
                        h.id,
                        h.key,
                        h.outdated,
                        if current { "would" } else { "would not" }
                    ),
                );
            }
            if !current {
                self.flags.handle_outlived_entry = true;
            }
        }
    }

    fn epilogue_key(&self, id: u64) -> u64 {
        self.pending_keys.get(&id).copied().unwrap_or(u64::MAX)
    }

    /// Capacity bound clause for shard `s` after an operation.
    fn bound(&mut self, idx: usize, s: usize, new_id: Option<u64>, ctx: &str) {
        let u = self.shard_usage(s);
        let cap = self.shard_cap(s);
        // statement carve-outs: everything else unevictable (LRU pins), or the new entry alone exceeds the shard
        let new_alone_too_big = new_id.map(|id| self.recs[&id].weight > cap).unwrap_or(false);
        if u > cap && !new_alone_too_big {
            if self.others_all_pinned(s, new_id) {
                self.flags.over_capacity_pinned = true;
            } else {
                let evictable: Vec<u64> = self
                    .resident
                    .iter()
                    .filter(|(k, id)| self.cfg.shard_of(**k) == s && Some(**id) != new_id && !(self.cfg.algo.is_lru() && self.recs[*id].pinned))
                    .map(|(k, _)| *k)
                    .collect();
                self.fail(
                    Prop::C05,
                    &format!("over-capacity-with-evictable@{ctx}"),
                    format!("step {idx} ({ctx}): shard {s} holds weight {u} > capacity {cap} although evictable entries remain (keys {evictable:?})"),
                );
            }
        }
    }

    #[allow(clippy::too_many_arguments)]
    fn insert(
        &mut self,
        idx: usize,
        k: u64,
        w: usize,
        admit: bool,
        hold: bool,
        id: u64,
        events: &mut Vec<Ev>,
        piped: &mut Vec<u64>,
        ctx: &str,
        slot_effect: SlotEffect,
    ) {
        self.recs.insert(
            id,
            Rec {
                key: k,
                weight: w,
                admitted: admit,
                refs: 1,
                pinned: false,
                resident: false,
                leaves: vec![],
                piped: 0,
                survived_round_while_pinned: false,
                was_pinned_then_released: false,
                phantom_seen_other_op: false,
            },
        );
        let s = self.cfg.shard_of(k);
        let old = self.resident.get(&k).copied();
        if !admit {
            self.flags.phantom_any = true;
            // disk-only entry: replaces (removes) the resident copy, is itself not resident
            if let Some(old) = old {
                self.flags.any_replace = true;
                if let Some(pos) = events.iter().position(|e| e.id == old) {
                    let ev = events.remove(pos);
                    self.leave(idx, &ev, &[Reason::Replace], ctx);
                    self.unresident(idx, &ev, ctx);
                } else {
                    self.fail(Prop::C13, "replace-not-notified", format!("step {idx} ({ctx}): resident entry #{old} of key {k} was displaced without notification"));
                    self.resident.remove(&k);
                }
            }
            // the rejected entry itself: foyer announces it once at insert time (reason Remove); the property does
            // not count notifications for non-admitted entries, so this is consumed, not judged.
            if let Some(pos) = events.iter().position(|e| e.id == id && e.reason == Reason::Remove) {
                events.remove(pos);
            }
        } else {
            let cap = self.shard_cap(s);
            if let Some(o) = old {
                if self.recs[&o].weight != w {
                    self.flags.weighted_replace = true;
                }
            }
            if self.cleared_before {
                self.flags.clear_then_insert = true;
            }
            // capacity evictions, in notification order
            let mut n_evict = 0;
            while let Some(pos) = events.iter().position(|e| e.reason == Reason::Evict) {
                let ev = events.remove(pos);
                n_evict += 1;
                self.capacity_evict(idx, &ev, s, |u| u + w > cap, ctx);
            }
            if n_evict >= 2 {
                self.flags.multi_evict_insert = true;
            }
            // replacement of the old copy if it is still there
            if let Some(o) = self.resident.get(&k).copied() {
                self.flags.any_replace = true;
                if let Some(pos) = events.iter().position(|e| e.id == o) {
                    let ev = events.remove(pos);
                    self.leave(idx, &ev, &[Reason::Replace], ctx);
                    self.unresident(idx, &ev, ctx);
                } else {
                    self.fail(Prop::C13, "replace-not-notified", format!("step {idx} ({ctx}): resident entry #{o} of key {k} was replaced without notification"));
                    self.resident.remove(&k);
                }
            }
            self.resident.insert(k, id);
            self.recs.get_mut(&id).unwrap().resident = true;
            self.bound(idx, s, Some(id), ctx);
        }
        if hold {
            if let SlotEffect::Push = slot_effect {
                self.slots.push(Some(id));
            }
        } else {
            self.dec_ref(idx, id, events, piped, ctx);
        }
    }

    fn finish(&mut self) {
        // exactly-one notification for every admitted entry
        let mut ids: Vec<u64> = self.recs.keys().copied().collect();
        ids.sort();
        for id in ids {
            let r = &self.recs[&id];
            if r.admitted && r.leaves.len() != 1 {
                let (key, n, leaves) = (r.key, r.leaves.len(), r.leaves.clone());
                self.fail(
                    Prop::C13,
                    &format!("notification-count:{n}"),
                    format!("end: admitted entry #{id} (key {key}) received {n} leave notifications {leaves:?}, expected exactly 1"),
                );
            }
            let r = &self.recs[&id];
            if self.cfg.pipe {
                let evicted = r.leaves.contains(&Reason::Evict);
                let want = usize::from(evicted);
                if r.admitted && r.piped != want {
                    let (key, piped) = (r.key, r.piped);
                    self.fail(
                        Prop::C13,
                        &format!("pipe-count:{piped}-want-{want}"),
                        format!("end: entry #{id} (key {key}) was offered to the disk tier {piped} times, expected {want}"),
                    );
                }
            }
        }
    }
}

#[derive(Clone, Copy, Debug)]
pub enum SlotEffect {
    None,
    Push,
}

fn op_key(op: Option<&MemOp>) -> Option<u64> {
    match op {
        Some(MemOp::Insert { k, .. })
        | Some(MemOp::Get { k })
        | Some(MemOp::Touch { k })
        | Some(MemOp::Contains { k })
        | Some(MemOp::FetchReady { k, .. })
        | Some(MemOp::Remove { k, .. }) => Some(*k as u64),
        _ => None,
    }
}

pub fn judge(cfg: &MemCfg, ops: &[MemOp], trace: &Trace) -> Judgement {
    let mut m = Model {
        cfg,
        capacity: cfg.capacity,
        recs: HashMap::new(),
        resident: BTreeMap::new(),
        failures: vec![],
        flags: Flags::default(),
        cleared_before: false,
        slots: vec![],
        pending_keys: trace.inserted.iter().map(|(id, k, _, _)| (*id, *k)).collect(),
    };
    for (i, (op, st)) in ops.iter().zip(trace.steps.iter()).enumerate() {
        m.step(i, Some(op), None, st, SlotEffect::Push);
    }
    let base = ops.len();
    for (j, st) in trace.final_drops.iter().enumerate() {
        m.step(base + j, None, None, st, SlotEffect::None);
    }
    let base = base + trace.final_drops.len();
    for (s, st) in trace.final_inserts.iter().enumerate() {
        m.step(base + s, None, Some(s), st, SlotEffect::None);
    }
    let base = base + trace.final_inserts.len();
    m.step(base, None, None, &trace.final_cache_drop, SlotEffect::None);
    m.finish();
    Judgement {
        failures: m.failures,
        flags: m.flags,
    }
}
