//! C03: corrupted or misdirected disk bytes never surface as a cached value.
//!
//! Real workloads produce device images; faults are ENUMERATED over every page of the image (bit flip, zero page,
//! all-ones page, swap inside the block, swap with the same page of another block / of the tombstone log, older
//! generation of the same page) plus generated multi-fault sets; each faulted image is (a) read through the running
//! store (load path with live index) and (b) reopened in quiet recovery mode and every key is read.

use std::collections::BTreeMap;

use proptest::prelude::*;
use serde::{Deserialize, Serialize};

use crate::{
    common::{CaseReport, Check, Failure, Tier, guarded, midx},
    hasher::HashSpec,
    hval::{Decoded, is_tiny_of},
    hybsim::{HybCfg, HybSim, KeyClass, LookupOut},
    memsim::Algo,
    simdev::IoKind,
};

const PAGE: usize = 4096;

#[derive(Clone, Debug, Serialize, Deserialize, PartialEq, Eq)]
pub enum WOp {
    Insert { k: u8, pages: u8, tiny: bool },
    Delete { k: u8 },
    Evict,
    Wait,
}

#[derive(Clone, Copy, Debug, Serialize, Deserialize, PartialEq, Eq)]
pub enum FaultKind {
    Flip { offset: u16, bit: u8 },
    Zero,
    Ones,
    /// swap with another page of the same partition
    SwapWithin { other: u16 },
    /// swap with a page of another partition
    SwapAcross { part: u16, page: u16 },
    /// replace by an older generation of the same page (taken from the write log)
    Older { age: u16 },
}

#[derive(Clone, Debug, Serialize, Deserialize)]
pub struct Fault {
    pub page: u16,
    pub kind: FaultKind,
}

#[derive(Clone, Debug, Serialize, Deserialize)]
pub struct FCase3 {
    pub compression: u8,
    pub tombstone: bool,
    pub write_on_insertion: bool,
    pub blocks: usize,
    pub ops: Vec<WOp>,
    /// seeds for the per-page enumerated bit flips
    pub flip_seed: u64,
    /// extra multi-fault sets
    pub multi: Vec<Vec<Fault>>,
}

fn wop() -> impl Strategy<Value = WOp> {
    prop_oneof![
        10 => (0u8..8, 1u8..=3, prop::bool::weighted(0.15)).prop_map(|(k, pages, tiny)| WOp::Insert { k, pages, tiny }),
        2 => (0u8..8).prop_map(|k| WOp::Delete { k }),
        3 => Just(WOp::Evict),
        2 => Just(WOp::Wait),
    ]
}

fn fault() -> impl Strategy<Value = Fault> {
    (
        any::<u16>(),
        prop_oneof![
            (any::<u16>(), 0u8..8).prop_map(|(offset, bit)| FaultKind::Flip { offset, bit }),
            Just(FaultKind::Zero),
            Just(FaultKind::Ones),
            any::<u16>().prop_map(|other| FaultKind::SwapWithin { other }),
            (any::<u16>(), any::<u16>()).prop_map(|(part, page)| FaultKind::SwapAcross { part, page }),
            any::<u16>().prop_map(|age| FaultKind::Older { age }),
        ],
    )
        .prop_map(|(page, kind)| Fault { page, kind })
}

pub fn fcase3() -> impl Strategy<Value = FCase3> {
    (
        0u8..=2,
        any::<bool>(),
        any::<bool>(),
        prop_oneof![2 => Just(4usize), 2 => Just(6), 1 => Just(8)],
        prop::collection::vec(wop(), 4..=40),
        any::<u64>(),
        prop::collection::vec(prop::collection::vec(fault(), 2..=8), 0..=3),
    )
        .prop_map(|(compression, tombstone, write_on_insertion, blocks, ops, flip_seed, multi)| FCase3 {
            compression,
            tombstone,
            write_on_insertion,
            blocks,
            ops,
            flip_seed,
            multi,
        })
}

fn cfg_of(case: &FCase3) -> HybCfg {
    HybCfg {
        write_on_insertion: case.write_on_insertion,
        algo: Algo::Fifo,
        mem_capacity: 1 << 20,
        mem_shards: 1,
        tombstone: case.tombstone,
        compression: case.compression,
        flushers: 1,
        reclaimers: 1,
        blocks: case.blocks,
        block_size: 16 * 1024,
        blob_index_size: 4096,
        clean_block_threshold: 1,
        flush_on_close: true,
        hash: HashSpec::Identity,
        key_class: vec![KeyClass::DiskAllowed; 8],
        buffer_pool_size: 16 * 16 * 1024,
        submit_queue_threshold: 1 << 30,
        admission_reject: vec![],
        reinsert: vec![],
        indexer_shards: 4,
        invalid_ratio_picker: false,
        hold_io: false,
        probation_pct: 10,
    }
}

type Versions = BTreeMap<u64, Vec<(u64, usize)>>;

/// all pages of the image as (partition, page index)
fn pages_of(image: &[Vec<u8>]) -> Vec<(usize, usize)> {
    let mut v = vec![];
    for (pi, p) in image.iter().enumerate() {
        for pg in 0..p.len() / PAGE {
            v.push((pi, pg));
        }
    }
    v
}

fn apply_fault(image: &mut [Vec<u8>], pages: &[(usize, usize)], generations: &BTreeMap<(usize, usize), Vec<Vec<u8>>>, f: &Fault) -> Option<(usize, usize)> {
    if pages.is_empty() {
        return None;
    }
    let (pi, pg) = pages[midx(f.page, pages.len())];
    let range = pg * PAGE..(pg + 1) * PAGE;
    let before = image[pi][range.clone()].to_vec();
    match f.kind {
        FaultKind::Flip { offset, bit } => {
            image[pi][pg * PAGE + (offset as usize % PAGE)] ^= 1 << (bit % 8);
        }
        FaultKind::Zero => image[pi][range.clone()].fill(0),
        FaultKind::Ones => image[pi][range.clone()].fill(0xFF),
        FaultKind::SwapWithin { other } => {
            let n = image[pi].len() / PAGE;
            let o = midx(other, n);
            let a = image[pi][range.clone()].to_vec();
            let b = image[pi][o * PAGE..(o + 1) * PAGE].to_vec();
            image[pi][range.clone()].copy_from_slice(&b);
            image[pi][o * PAGE..(o + 1) * PAGE].copy_from_slice(&a);
        }
        FaultKind::SwapAcross { part, page } => {
            let p2 = midx(part, image.len());
            let n = image[p2].len() / PAGE;
            if n > 0 {
                let o = midx(page, n);
                let a = image[pi][range.clone()].to_vec();
                let b = image[p2][o * PAGE..(o + 1) * PAGE].to_vec();
                image[pi][range.clone()].copy_from_slice(&b);
                image[p2][o * PAGE..(o + 1) * PAGE].copy_from_slice(&a);
            }
        }
        FaultKind::Older { age } => {
            if let Some(gens) = generations.get(&(pi, pg)) {
                if !gens.is_empty() {
                    let g = &gens[midx(age, gens.len())];
                    image[pi][range.clone()].copy_from_slice(g);
                }
            }
        }
    }
    if image[pi][range] != before[..] { Some((pi, pg)) } else { None }
}

fn judge_value(key: u64, out: &LookupOut, versions: &Versions, ctx: &str) -> Option<Failure> {
    let vs = versions.get(&key).cloned().unwrap_or_default();
    match out {
        LookupOut::Miss | LookupOut::Err(_) => None,
        LookupOut::Hit { decoded, len, bytes_head, .. } => {
            let ok = match decoded {
                Decoded::Valid { key: k2, version } => *k2 == key && vs.iter().any(|(v, _)| v == version),
                Decoded::Tiny { .. } => vs.iter().any(|(v, l)| l == len && is_tiny_of(bytes_head, key, *v)),
                Decoded::Garbage { .. } => false,
            };
            if ok {
                None
            } else {
                let kind = match decoded {
                    Decoded::Valid { key: k2, .. } if *k2 != key => "foreign-value-surfaced",
                    Decoded::Valid { .. } => "never-stored-version-surfaced",
                    _ => "garbage-surfaced",
                };
                Some(Failure::new(kind, format!("{ctx}: get({key}) returned {decoded:?} ({len} bytes), which is not a value that was stored for that key")))
            }
        }
    }
}

#[derive(Default)]
struct Stats3 {
    faults: u64,
    effective: u64,
    read_hit_fault: u64,
    reopen_runs: u64,
    live_runs: u64,
    hits_after_fault: u64,
}

/// Reopen a faulted image and read all keys. Returns failures; `touched` tells whether a faulted page was read.
fn reopen_and_judge(cfg: &HybCfg, image: Vec<Vec<u8>>, versions: &Versions, faulted: &[(usize, usize)], label: &str, stats: &mut Stats3) -> Vec<Failure> {
    stats.reopen_runs += 1;
    let r = guarded(|| {
        let (mut sim, ok) = HybSim::from_image(cfg.clone(), image, foyer::RecoverMode::Quiet);
        let mut fails = vec![];
        let mut hits = 0;
        if !ok {
            // an error from open() is not a panic; the statement only demands that opening *completes without panicking*
            let _ = sim.finish();
            return (fails, false, 0);
        }
        for key in 0..8u64 {
            match sim.raw_get(key) {
                Ok(out) => {
                    if matches!(out, LookupOut::Hit { .. }) {
                        hits += 1;
                    }
                    if let Some(f) = judge_value(key, &out, versions, label) {
                        fails.push(f);
                    }
                }
                Err(_) => fails.push(Failure::new("lookup-hangs-on-faulted-image", format!("{label}: get({key}) never resolves"))),
            }
        }
        let log = sim.full_log();
        let touched = log.iter().any(|(_, r)| {
            r.kind == IoKind::Read && faulted.iter().any(|(pi, pg)| r.part == *pi && r.offset < (pg + 1) * PAGE && r.offset + r.len > pg * PAGE)
        });
        let _ = sim.finish();
        (fails, touched, hits)
    });
    match r {
        Ok((fails, touched, hits)) => {
            if touched {
                stats.read_hit_fault += 1;
            }
            stats.hits_after_fault += hits;
            fails
        }
        Err(f) => {
            let sig = if f.signature == "harness-panic" { f.signature.clone() } else { format!("panic-on-faulted-image:{}", f.signature) };
            vec![Failure::new(sig, format!("{label}: {}", f.message))]
        }
    }
}

pub fn exec_c03(case: &FCase3) -> CaseReport {
    let cfg = cfg_of(case);
    let mut sim = HybSim::new(cfg.clone());
    let mut versions: Versions = BTreeMap::new();
    for op in &case.ops {
        match op {
            WOp::Insert { k, pages, tiny } => {
                let len = if *tiny { (*pages as usize) * 7 } else { (*pages as usize).clamp(1, 3) * PAGE - crate::hybsim::ENTRY_OVERHEAD - 9 };
                let v = sim.raw_insert(*k as u64, len);
                versions.entry(*k as u64).or_default().push((v, len));
                sim.raw_settle();
            }
            WOp::Delete { k } => {
                sim.raw_remove(*k as u64);
                sim.raw_settle();
            }
            WOp::Evict => {
                sim.raw_evict_all();
                sim.raw_settle();
            }
            WOp::Wait => {
                let _ = sim.raw_wait();
            }
        }
    }
    sim.raw_evict_all();
    let _ = sim.raw_wait();
    let image = sim.disk.image();
    // page generations from the write log
    let mut generations: BTreeMap<(usize, usize), Vec<Vec<u8>>> = BTreeMap::new();
    for (_, r) in sim.full_log() {
        if r.kind == IoKind::Write {
            if let Some(d) = &r.data {
                for (i, chunk) in d.chunks(PAGE).enumerate() {
                    if chunk.len() == PAGE {
                        generations.entry((r.part, r.offset / PAGE + i)).or_default().push(chunk.to_vec());
                    }
                }
            }
        }
    }
    // the last generation is the current content: drop it
    for g in generations.values_mut() {
        g.pop();
    }
    let wrapped = generations.values().any(|g| !g.is_empty());
    let pages = pages_of(&image);
    let mut failures: Vec<Failure> = vec![];
    let mut stats = Stats3::default();

    // (a) faults served to the *running* store (live index, load path): one fault at a time on the data pages
    let mut rng = case.flip_seed | 1;
    let mut next = || {
        rng ^= rng << 13;
        rng ^= rng >> 7;
        rng ^= rng << 17;
        rng
    };
    let live_kinds = |r: u64| -> Vec<FaultKind> {
        vec![
            FaultKind::Flip { offset: (r % 64) as u16, bit: (r >> 8) as u8 % 8 },
            FaultKind::Flip { offset: (r >> 16) as u16, bit: (r >> 40) as u8 % 8 },
            FaultKind::SwapWithin { other: (r >> 24) as u16 },
            FaultKind::SwapAcross { part: (r >> 32) as u16, page: (r >> 48) as u16 },
            FaultKind::Older { age: (r >> 12) as u16 },
        ]
    };
    for (idx, _) in pages.iter().enumerate() {
        let r = next();
        for kind in live_kinds(r) {
            let f = Fault { page: ((idx as u64 * 65536 + 32768) / pages.len() as u64) as u16, kind };
            let mut img = image.clone();
            stats.faults += 1;
            if let Some(fp) = apply_fault(&mut img, &pages, &generations, &f) {
                stats.effective += 1;
                stats.live_runs += 1;
                // serve the faulted bytes to the running store, read all keys, restore
                sim.disk.with_image_mut(|parts| *parts = img.clone());
                let label = format!("running store, fault {kind:?} on partition {} page {}", fp.0, fp.1);
                let r = guarded(|| {
                    let mut fails = vec![];
                    for key in 0..8u64 {
                        match sim.raw_get(key) {
                            Ok(out) => {
                                if let Some(f) = judge_value(key, &out, &versions, &label) {
                                    fails.push(f);
                                }
                            }
                            Err(_) => fails.push(Failure::new("lookup-hangs-on-faulted-image", format!("{label}: get({key}) never resolves"))),
                        }
                    }
                    sim.raw_evict_all();
                    sim.raw_settle();
                    fails
                });
                match r {
                    Ok(fs) => failures.extend(fs),
                    Err(f) => {
                        failures.push(Failure::new(format!("panic-on-faulted-read:{}", f.signature), format!("{label}: {}", f.message)));
                        break;
                    }
                }
                sim.disk.with_image_mut(|parts| *parts = image.clone());
            }
        }
        if !failures.is_empty() {
            break;
        }
    }
    let _ = sim.finish();

    // (b) every single-page fault, reopened
    if failures.is_empty() {
        'outer: for (idx, _) in pages.iter().enumerate() {
            let r = next();
            let mut kinds = vec![
                FaultKind::Zero,
                FaultKind::Ones,
                FaultKind::Flip { offset: (r % 64) as u16, bit: (r >> 8) as u8 % 8 },
                FaultKind::Flip { offset: (r >> 16) as u16, bit: (r >> 40) as u8 % 8 },
                FaultKind::SwapWithin { other: (r >> 24) as u16 },
                FaultKind::SwapAcross { part: (r >> 32) as u16, page: (r >> 48) as u16 },
                FaultKind::SwapAcross { part: 0, page: 0 },
            ];
            if generations.get(&pages[idx]).map(|g| !g.is_empty()).unwrap_or(false) {
                kinds.push(FaultKind::Older { age: (r >> 12) as u16 });
                kinds.push(FaultKind::Older { age: 0 });
            }
            for kind in kinds {
                let f = Fault { page: ((idx as u64 * 65536 + 32768) / pages.len() as u64) as u16, kind };
                let mut img = image.clone();
                stats.faults += 1;
                if let Some(fp) = apply_fault(&mut img, &pages, &generations, &f) {
                    stats.effective += 1;
                    let label = format!("reopen after fault {kind:?} on partition {} page {}", fp.0, fp.1);
                    let fs = reopen_and_judge(&cfg, img, &versions, &[fp], &label, &mut stats);
                    if !fs.is_empty() {
                        failures.extend(fs);
                        break 'outer;
                    }
                }
            }
        }
    }
    // (c) generated multi-fault sets
    if failures.is_empty() {
        for set in &case.multi {
            let mut img = image.clone();
            let mut fps = vec![];
            for f in set {
                stats.faults += 1;
                if let Some(fp) = apply_fault(&mut img, &pages, &generations, f) {
                    fps.push(fp);
                }
            }
            if !fps.is_empty() {
                stats.effective += 1;
                let label = format!("reopen after multi-fault set {set:?}");
                failures.extend(reopen_and_judge(&cfg, img, &versions, &fps, &label, &mut stats));
            }
        }
    }
    FAULT_RUNS.fetch_add(stats.reopen_runs + stats.live_runs, std::sync::atomic::Ordering::Relaxed);
    FAULTS_READ.fetch_add(stats.read_hit_fault, std::sync::atomic::Ordering::Relaxed);
    let mut classes: Vec<&'static str> = vec![];
    if wrapped {
        classes.push("device-wrapped(older-generations-exist)");
    }
    if case.tombstone {
        classes.push("tombstone-log");
    }
    match case.compression {
        1 => classes.push("zstd"),
        2 => classes.push("lz4"),
        _ => classes.push("no-compression"),
    }
    if stats.hits_after_fault > 0 {
        classes.push("valid-hits-survive-faults");
    }
    let nontrivial = stats.read_hit_fault > 0;
    crate::hybchecks::split_known("C03", failures, nontrivial, classes, false)
}

pub static FAULT_RUNS: std::sync::atomic::AtomicU64 = std::sync::atomic::AtomicU64::new(0);
pub static FAULTS_READ: std::sync::atomic::AtomicU64 = std::sync::atomic::AtomicU64::new(0);

pub fn check_c03(tier: Tier, seed: u64) -> i32 {
    let mut check = Check::new("C03", "fault_enumeration", tier, seed);
    check.rule = "generated workloads (inserts of 1-3 page and tiny values, overwrites, deletes, evictions, waits; none/zstd/lz4; tombstone log on/off; 4-8 blocks so that about half of the workloads wrap the device and older page generations exist) produce device images. Faults are ENUMERATED for every page of the final image (blocks and tombstone log): zero page, all-ones page, two bit flips (one in the first 64 bytes = header / checksum / count fields, one anywhere), swap with another page of the block, swap with a page of another partition and with the first tombstone page, replacement by older generations of the same page; plus generated multi-fault sets (2-8 faults). Each fault is (a) served to the running store (live index; load path) and (b) applied to the image which is reopened in quiet recovery mode; then every key is read. Oracle: nothing panics (catch_unwind around open and every lookup); each read is a miss, an error, or validates bit for bit as some version that was really inserted for that key. Non-trivial = a faulted page was actually read by the recovery scan or a lookup (from the simulated device's read log). evaluations = workloads; fault_runs = reopen / live runs.".into();
    check.assumptions = vec![
        "a 64-bit xxhash collision is not searched for".into(),
        "byte-level mutation of single entries and blob indexes is done by the cargo-fuzz targets (fmt_entry, fmt_blob_index)".into(),
    ];
    let cases = tier.pick(2500, 60_000);
    check.run_random("random", cases, fcase3, exec_c03);
    for t in ["fmt_entry", "fmt_entry_struct", "fmt_blob_index"] {
        crate::fuzzglue::replay_seed_corpus(&check, t);
    }
    if tier == Tier::Thorough {
        crate::fuzzglue::campaign(&check, "fmt_entry_struct", 2_000_000, 512);
        crate::fuzzglue::campaign(&check, "fmt_blob_index", 10_000_000, 8192);
    }
    check.set_extra("fault_runs", serde_json::json!(FAULT_RUNS.load(std::sync::atomic::Ordering::Relaxed)));
    check.set_extra("fault_runs_where_faulted_page_was_read", serde_json::json!(FAULTS_READ.load(std::sync::atomic::Ordering::Relaxed)));
    check.finish()
}
