//! `check <Cxx> [--tier quick|thorough] [--seed N]` / `check replay <file>`

use fvcore::common::{Tier, install_panic_hook, load_replay};

fn usage() -> ! {
    eprintln!("usage: check <C01..C18> [--tier quick|thorough] [--seed N] | check replay <file>");
    std::process::exit(2)
}

fn main() {
    // Millions of tiny caches are created and dropped: keep glibc from trimming / mmapping on every case.
    unsafe {
        libc::mallopt(libc::M_MMAP_THRESHOLD, 1 << 30);
        libc::mallopt(libc::M_TRIM_THRESHOLD, 1 << 30);
        libc::mallopt(libc::M_TOP_PAD, 64 << 20);
    }
    if std::env::var("VERIF_TRACE").is_ok() {
        let _ = tracing_subscriber::fmt().with_max_level(tracing::Level::TRACE).with_writer(std::io::stderr).try_init();
    }
    install_panic_hook();
    let args: Vec<String> = std::env::args().skip(1).collect();
    if args.is_empty() {
        usage();
    }
    if args[0] == "fuzz-seeds" {
        // (re)generate /verif/fuzz/corpus-seed from real serialisations
        match fvcore::fuzzglue::write_seed_corpus() {
            Ok(n) => {
                println!("wrote {n} seed inputs");
                std::process::exit(0)
            }
            Err(e) => {
                eprintln!("cannot write seed corpus: {e}");
                std::process::exit(2)
            }
        }
    }
    if args[0] == "fuzz-campaign" {
        // check fuzz-campaign <target> <runs> [max_len]: one libFuzzer campaign outside a property check (development
        // aid; evidence goes to VERIF_OUT_ROOT if set)
        let target = args.get(1).cloned().unwrap_or_else(|| usage());
        let runs: u64 = args.get(2).and_then(|s| s.parse().ok()).unwrap_or(100_000);
        let max_len: usize = args.get(3).and_then(|s| s.parse().ok()).unwrap_or(4096);
        let seed: u64 = std::env::var("VERIF_SEED").ok().and_then(|s| s.parse().ok()).unwrap_or(0);
        let check = fvcore::common::Check::new("C08", "exploration", Tier::Thorough, seed);
        fvcore::fuzzglue::replay_seed_corpus(&check, &target);
        fvcore::fuzzglue::campaign(&check, &target, runs, max_len);
        std::process::exit(check.finish());
    }
    if args[0] == "replay" {
        let Some(path) = args.get(1) else { usage() };
        std::process::exit(replay(path));
    }
    let prop = args[0].to_uppercase();
    let mut tier = match std::env::var("VERIF_TIER").ok().as_deref() {
        Some("thorough") => Tier::Thorough,
        _ => Tier::Quick,
    };
    let mut seed: u64 = std::env::var("VERIF_SEED").ok().and_then(|s| s.parse().ok()).unwrap_or(0);
    let mut i = 1;
    while i < args.len() {
        match args[i].as_str() {
            "--tier" => {
                tier = match args.get(i + 1).map(|s| s.as_str()) {
                    Some("quick") => Tier::Quick,
                    Some("thorough") => Tier::Thorough,
                    _ => usage(),
                };
                i += 2;
            }
            "--seed" => {
                seed = args.get(i + 1).and_then(|s| s.parse().ok()).unwrap_or_else(|| usage());
                i += 2;
            }
            _ => usage(),
        }
    }
    let code = fvcore::dispatch(&prop, tier, seed);
    std::process::exit(code);
}

fn replay(path: &str) -> i32 {
    let rf = match load_replay(path) {
        Ok(rf) => rf,
        Err(e) => {
            eprintln!("cannot load replay {path}: {e}");
            return 2;
        }
    };
    match fvcore::replay(&rf) {
        Ok(None) => {
            println!("replay {path}: property {} held on this case", rf.property);
            0
        }
        Ok(Some(f)) => {
            println!("replay {path}: signature={} {}", f.signature, f.message);
            println!("VIOLATION property={} replay={path}", rf.property);
            1
        }
        Err(e) => {
            eprintln!("replay {path}: {e}");
            2
        }
    }
}
