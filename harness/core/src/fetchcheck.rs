//! C06 (single flight, every caller answered) and C11 (explicit insert beats an older in-flight fetch) on the
//! in-memory cache, driven through fetchsim.

use proptest::prelude::*;
use serde_json::json;

use crate::{
    common::{CaseReport, Check, Tier},
    fetchsim::{CallKind, DiskRes, FCase, FOp, run_fetch_case},
    memsim::Algo,
};

#[derive(Clone, Copy, PartialEq, Eq)]
pub enum Which {
    C06,
    C11,
}

pub fn exec_fetch(which: Which, case: &FCase) -> CaseReport {
    let j = run_fetch_case(case);
    let f = &j.flags;
    let mut classes: Vec<&'static str> = vec![case.algo.name()];
    macro_rules! cls {
        ($cond:expr, $name:expr) => {
            if $cond {
                classes.push($name);
            }
        };
    }
    cls!(f.overlapping_callers, "overlapping-callers");
    cls!(f.dropped_caller_in_flight, "dropped-caller-in-flight");
    cls!(f.failed_fetch, "failed-fetch");
    cls!(f.cancel_with_pending, "cancel-with-pending-callers");
    cls!(f.donated_closure, "donated-closure(lookup-only-leader)");
    cls!(f.insert_during_flight_with_waiter, "insert-during-flight-with-waiter");
    cls!(f.late_fetch_after_insert, "late-fetch-after-insert");
    cls!(f.insert_during_final_poll, "insert-completes-during-final-poll-of-origin");
    cls!(f.disk_hit, "disk-hit");
    cls!(f.disk_err, "disk-error");
    cls!(f.refetch_after_failure, "refetch-after-failure");
    let (nontrivial, failure) = match which {
        Which::C06 => (
            f.overlapping_callers && (f.dropped_caller_in_flight || f.failed_fetch || f.cancel_with_pending || f.donated_closure),
            j.c06,
        ),
        Which::C11 => (f.insert_during_flight_with_waiter && f.late_fetch_after_insert, j.c11),
    };
    CaseReport {
        nontrivial,
        classes,
        discarded: false,
        failure,
        tolerated: vec![],
    }
}

fn kind_strategy() -> impl Strategy<Value = CallKind> {
    prop_oneof![3 => Just(CallKind::Fetch), 2 => Just(CallKind::LookupOnly), 2 => Just(CallKind::FetchWithDisk)]
}

pub fn fop_c06(keys: u8) -> impl Strategy<Value = FOp> {
    prop_oneof![
        6 => (0..keys, kind_strategy()).prop_map(|(k, kind)| FOp::Call { k, kind }),
        4 => (any::<u16>(), prop_oneof![2 => Just(DiskRes::Miss), 1 => Just(DiskRes::Hit), 1 => Just(DiskRes::Err)]).prop_map(|(i, res)| FOp::DiskResolve { i, res }),
        4 => (any::<u16>(), prop::bool::weighted(0.7)).prop_map(|(i, ok)| FOp::FetchResolve { i, ok }),
        2 => any::<u16>().prop_map(|j| FOp::DropCaller { j }),
        1 => Just(FOp::Cancel),
        2 => (0..keys).prop_map(|k| FOp::Insert { k }),
        1 => (0..keys).prop_map(|k| FOp::InsertDiskOnly { k }),
        1 => (0..keys).prop_map(|k| FOp::Remove { k }),
        1 => (0..keys).prop_map(|k| FOp::Get { k }),
        5 => Just(FOp::Settle),
    ]
}

fn fop_c11(keys: u8) -> impl Strategy<Value = FOp> {
    prop_oneof![
        5 => (0..keys, prop_oneof![3 => Just(CallKind::Fetch), 1 => Just(CallKind::FetchWithDisk), 1 => Just(CallKind::LookupOnly)]).prop_map(|(k, kind)| FOp::Call { k, kind }),
        2 => (any::<u16>(), prop_oneof![2 => Just(DiskRes::Miss), 1 => Just(DiskRes::Hit)]).prop_map(|(i, res)| FOp::DiskResolve { i, res }),
        5 => (any::<u16>(), prop::bool::weighted(0.85)).prop_map(|(i, ok)| FOp::FetchResolve { i, ok }),
        5 => (0..keys).prop_map(|k| FOp::Insert { k }),
        2 => (0..keys).prop_map(|k| FOp::InsertDiskOnly { k }),
        2 => any::<u16>().prop_map(|i| FOp::FetchResolveWhileInserting { i }),
        1 => (0..keys).prop_map(|k| FOp::Remove { k }),
        3 => (0..keys).prop_map(|k| FOp::Get { k }),
        5 => Just(FOp::Settle),
    ]
}

fn algos() -> Vec<Algo> {
    Algo::defaults()
}

fn fcase(which: Which, max_len: usize) -> impl Strategy<Value = FCase> {
    let algos = algos();
    (0..algos.len(), 1usize..=2, 1..=max_len).prop_flat_map(move |(ai, shards, len)| {
        let algo = algos[ai].clone();
        let ops = match which {
            Which::C06 => prop::collection::vec(fop_c06(2), 1..=len).boxed(),
            Which::C11 => prop::collection::vec(fop_c11(2), 1..=len).boxed(),
        };
        ops.prop_map(move |ops| FCase {
            algo: algo.clone(),
            shards,
            ops,
            hash: Default::default(),
        })
    })
}

fn alphabet(which: Which) -> Vec<FOp> {
    let first = 0u16;
    let last = u16::MAX;
    match which {
        Which::C06 => vec![
            FOp::Call { k: 0, kind: CallKind::Fetch },
            FOp::Call { k: 0, kind: CallKind::LookupOnly },
            FOp::Call { k: 0, kind: CallKind::FetchWithDisk },
            FOp::DiskResolve { i: first, res: DiskRes::Miss },
            FOp::DiskResolve { i: first, res: DiskRes::Hit },
            FOp::DiskResolve { i: first, res: DiskRes::Err },
            FOp::DiskResolve { i: last, res: DiskRes::Miss },
            FOp::FetchResolve { i: first, ok: true },
            FOp::FetchResolve { i: first, ok: false },
            FOp::FetchResolve { i: last, ok: true },
            FOp::DropCaller { j: first },
            FOp::DropCaller { j: last },
            FOp::Cancel,
            FOp::Insert { k: 0 },
            FOp::InsertDiskOnly { k: 0 },
            FOp::Remove { k: 0 },
            FOp::Settle,
        ],
        Which::C11 => vec![
            FOp::Call { k: 0, kind: CallKind::Fetch },
            FOp::Call { k: 0, kind: CallKind::FetchWithDisk },
            FOp::Call { k: 0, kind: CallKind::LookupOnly },
            FOp::DiskResolve { i: first, res: DiskRes::Miss },
            FOp::DiskResolve { i: first, res: DiskRes::Hit },
            FOp::FetchResolve { i: first, ok: true },
            FOp::FetchResolve { i: last, ok: true },
            FOp::FetchResolve { i: first, ok: false },
            FOp::FetchResolveWhileInserting { i: first },
            FOp::Insert { k: 0 },
            FOp::InsertDiskOnly { k: 0 },
            FOp::Remove { k: 0 },
            FOp::Get { k: 0 },
            FOp::Settle,
        ],
    }
}

fn make_exhaustive(which: Which, depth: usize) -> (u64, impl Fn(u64) -> FCase) {
    let a = alphabet(which);
    let n = a.len() as u64;
    let algos = algos();
    let per_algo: u64 = (1..=depth as u32).map(|l| n.pow(l)).sum();
    let total = per_algo * algos.len() as u64;
    (total, move |mut i: u64| {
        let ai = (i / per_algo) as usize;
        i %= per_algo;
        let mut len = 1u32;
        while i >= n.pow(len) {
            i -= n.pow(len);
            len += 1;
        }
        let mut ops = vec![];
        for _ in 0..len {
            ops.push(a[(i % n) as usize].clone());
            i /= n;
        }
        FCase {
            algo: algos[ai].clone(),
            shards: 1,
            ops,
            hash: Default::default(),
        }
    })
}

pub fn check_c06(tier: Tier, seed: u64) -> i32 {
    let mut check = Check::new("C06", "exploration", tier, seed);
    check.rule = "fetchsim histories on Cache (five algorithms): callers arrive (get_or_fetch / lookup-only / lookup+fetch), the harness resolves each disk lookup (hit/miss/error) and each origin fetch (ok/error) at generated points, runs the fetch tasks only at Settle, drops callers, cancels the fetch tasks (drops the runtime), inserts/removes concurrently. Oracle = reference state machine of the single-flight protocol: at every settle point each caller must be answered iff the protocol says so and with that entry / error; origin and disk futures are polled exactly when the protocol allows (memory miss, then disk miss/error, one origin per flight); at most one origin fetch executes per key; after resolving everything no caller stays pending (quiescence = hang); failed fetch caches nothing. Bounded-exhaustive over a 16-op single-key alphabet + proptest random over two keys. Non-trivial = >=2 overlapping callers on a key and (dropped caller | failed fetch | cancel with pending callers | closure donated to a lookup-only leader).".into();
    check.assumptions = vec![
        "memory-only cache with a harness 'disk lookup' future plugged into get_or_fetch_inner exactly as HybridCache does; the hybrid variant on the simulated device is part of the hybsim checks".into(),
        "fetch tasks run on a current-thread runtime that the harness drives; OS-level races between caller threads are not explored".into(),
    ];
    let depth = tier.pick(5, 6);
    let (total, make) = make_exhaustive(Which::C06, depth);
    check.set_extra("exhaustive_sequences", json!(total));
    check.set_extra("exhaustive_depth", json!(depth));
    check.run_exhaustive("exhaustive", total, make, |c| exec_fetch(Which::C06, c));
    let cases = tier.pick(100_000, 1_000_000);
    check.run_random("random", cases, || fcase(Which::C06, 24), |c| exec_fetch(Which::C06, c));
    check.finish()
}

pub fn check_c11(tier: Tier, seed: u64) -> i32 {
    let mut check = Check::new("C11", "exploration", tier, seed);
    check.rule = "fetchsim histories focused on {fetch starts, insert returns, fetch resolves ok/err, lookups}: the harness owns the order (the insert has returned before the origin/disk result is released). Oracle: every caller waiting on the flight when insert(k,v) returns resolves to v; after the late result is released and the tasks ran, get(k) is v or a value from a later explicit op, never the late fetch result; no later caller receives it. Bounded-exhaustive over a 12-op single-key alphabet + proptest random over two keys, five algorithms. Non-trivial = an explicit insert strictly between a fetch's start and its resolution with >=1 waiter, and the late fetch then resolves successfully.".into();
    check.assumptions = vec![
        "the truly concurrent case (origin resolves while insert is executing on another thread) is outside this check".into(),
        "the hybrid variant (disk lookup held by the simulated device while insert runs) is exercised by the hybsim C01/C11 histories".into(),
    ];
    let depth = tier.pick(5, 6);
    let (total, make) = make_exhaustive(Which::C11, depth);
    check.set_extra("exhaustive_sequences", json!(total));
    check.set_extra("exhaustive_depth", json!(depth));
    check.run_exhaustive("exhaustive", total, make, |c| exec_fetch(Which::C11, c));
    let cases = tier.pick(200_000, 2_000_000);
    check.run_random("random", cases, || fcase(Which::C11, 24), |c| exec_fetch(Which::C11, c));
    // the same claim under real concurrency (memrace engine, free-running threads): what the harness-owned orders
    // above cannot reach is an interleaving *inside* one foyer call
    crate::memrace::run_c11_free(&check);
    check.finish()
}
