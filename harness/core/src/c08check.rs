//! C08: every storable key/value round-trips through the disk format bit-exactly.
//!
//! (a) `Code::encode` / `decode` for every built-in type; (b) `EntrySerializer` / `EntryDeserializer` (+ `Buffer::push`
//! headers) under None / Zstd / Lz4, including every cut-off of the destination buffer; (c) the whole disk tier on
//! hybsim around the per-entry limit; (d) the same (a) code compiled with foyer-common's `serde` feature in the
//! separate `check-serde` binary; (e) byte-level mutation of valid encodings (the in-process twin of the cargo-fuzz
//! targets fmt_entry / fmt_blob_index / code_roundtrip): a decoder that accepts mutated bytes must have verified them.

use foyer::Compression;
use foyer_storage::verif::{BlobIndexReader, Checksummer, EntryDeserializer, EntryHeader, EntrySerializer};
use proptest::prelude::*;
use serde::{Deserialize, Serialize};

pub use crate::c08shared::*;

use crate::{
    common::{CaseReport, Check, Failure, Tier},
    fmtparse::{parse_blob_index, parse_entry},
};

// ---------------------------------------------------------------------------- (e) byte-level mutation

#[derive(Clone, Debug, Serialize, Deserialize)]
pub struct MutCase {
    pub base: SerCase,
    /// (position, xor mask) edits applied to header+payload; position mapped monotonically
    pub edits: Vec<(u16, u8)>,
    pub truncate: Option<u16>,
}

pub fn mut_case() -> impl Strategy<Value = MutCase> {
    (ser_case(), prop::collection::vec((any::<u16>(), 1u8..=255), 1..=4), prop::option::weighted(0.2, any::<u16>())).prop_map(|(base, edits, truncate)| MutCase { base, edits, truncate })
}

/// Oracle shared with the cargo-fuzz target `fmt_entry`: whatever the bytes, header parsing + deserialization either
/// fail or return a (key, value) whose re-serialization reproduces the payload bytes under a matching checksum.
pub fn judge_entry_bytes(bytes: &[u8]) -> Result<bool, Failure> {
    if bytes.len() < 36 {
        return Ok(false);
    }
    let Ok(header) = EntryHeader::read(&bytes[..36]) else { return Ok(false) };
    let payload = &bytes[36..];
    let res = EntryDeserializer::deserialize::<u64, Vec<u8>>(payload, header.key_len as usize, header.value_len as usize, header.compression, Some(header.checksum));
    match res {
        Err(_) => Ok(false),
        Ok((k, v)) => {
            let n = header.key_len as usize + header.value_len as usize;
            if n > payload.len() {
                return Err(Failure::new("mut:accepted-out-of-range", format!("deserialize returned Ok although header lengths ({n}) exceed the {} payload bytes", payload.len())));
            }
            let consumed = &payload[..n];
            if Checksummer::checksum64(consumed) != header.checksum {
                return Err(Failure::new("mut:accepted-with-bad-checksum", format!("deserialize returned Ok(key {k}, {} value bytes) although the payload checksum does not match the header", v.len())));
            }
            // the bytes verified: they must re-serialize to the same payload
            let mut again = vec![];
            if EntrySerializer::serialize(&k, &v, header.compression, &mut again).is_ok() && header.compression == Compression::None && again != consumed {
                return Err(Failure::new("mut:accepted-but-not-canonical", format!("accepted entry (key {k}, {} value bytes) re-serializes to different bytes", v.len())));
            }
            Ok(true)
        }
    }
}

pub fn judge_blob_index_bytes(bytes: &[u8]) -> Result<bool, Failure> {
    if bytes.len() < 4096 {
        return Ok(false);
    }
    let page = &bytes[..(bytes.len() / 4096) * 4096];
    match BlobIndexReader::read(page) {
        None => Ok(false),
        Some(ix) => match parse_blob_index(page) {
            Some(mine) if mine.len() == ix.len() => Ok(true),
            other => Err(Failure::new(
                "mut:blob-index-accepted",
                format!("BlobIndexReader accepted an index of {} records that the independent reader rejects / reads as {:?} records", ix.len(), other.map(|m| m.len())),
            )),
        },
    }
}

pub fn exec_mut(case: &MutCase) -> CaseReport {
    // build a valid entry (u64 key, Vec<u8> value) and a valid blob index, then damage them
    let (k, v) = match &case.base.kv {
        Kv::U64Bytes(k, v) => (*k, v.clone()),
        Kv::StrBytes(_, v) => (7, v.clone()),
        _ => (1, vec![1, 2, 3]),
    };
    let c = comp(case.base.compression);
    let mut payload = vec![];
    let info = match EntrySerializer::serialize(&k, &v, c, &mut payload) {
        Ok(i) => i,
        Err(_) => return CaseReport::default(),
    };
    let header = EntryHeader {
        key_len: info.key_len as u32,
        value_len: info.value_len as u32,
        hash: case.base.hash,
        sequence: case.base.sequence,
        checksum: Checksummer::checksum64(&payload),
        compression: c,
    };
    let mut bytes = vec![0u8; 36];
    header.write(&mut bytes[..]);
    bytes.extend_from_slice(&payload);
    let pristine = bytes.clone();
    for (pos, mask) in &case.edits {
        let p = (*pos as usize * bytes.len()) >> 16;
        bytes[p] ^= mask;
    }
    if let Some(t) = case.truncate {
        let n = 36 + ((t as usize * (bytes.len() - 36 + 1)) >> 16);
        bytes.truncate(n);
    }
    let changed = bytes != pristine;
    let mut failure = None;
    let mut accepted = false;
    match crate::common::guarded(|| judge_entry_bytes(&bytes)) {
        Ok(Ok(a)) => accepted = a,
        Ok(Err(f)) => failure = Some(f),
        Err(f) => failure = Some(Failure::new(format!("mut:panic:{}", f.signature), f.message)),
    }
    if failure.is_none() && accepted && changed {
        // damaged bytes were accepted: only legitimate if the damage is in header fields that are not covered by the
        // checksum (hash, sequence) - the value and key must still be the original ones
        if let Ok(h) = EntryHeader::read(&bytes[..36]) {
            if let Ok((k2, v2)) = EntryDeserializer::deserialize::<u64, Vec<u8>>(&bytes[36..], h.key_len as usize, h.value_len as usize, h.compression, Some(h.checksum)) {
                if k2 != k || v2 != v {
                    failure = Some(Failure::new(
                        "mut:damaged-entry-deserialized-to-different-value",
                        format!("an entry damaged by edits {:?} was accepted and decodes to key {k2} / {} value bytes instead of key {k} / {} bytes", case.edits, v2.len(), v.len()),
                    ));
                }
            }
        }
    }
    // blob index: one page with a few records, same edits
    if failure.is_none() {
        let mut page = vec![0u8; 4096];
        let n = (case.base.hash % 100) as usize;
        for i in 0..n {
            let o = 12 + i * 24;
            page[o..o + 8].copy_from_slice(&(i as u64).to_be_bytes());
            page[o + 8..o + 16].copy_from_slice(&(case.base.sequence.wrapping_add(i as u64)).to_be_bytes());
            page[o + 16..o + 20].copy_from_slice(&((4096 + i * 4096) as u32).to_be_bytes());
            page[o + 20..o + 24].copy_from_slice(&100u32.to_be_bytes());
        }
        page[8..12].copy_from_slice(&(n as u32).to_be_bytes());
        let cs = Checksummer::checksum64(&page[8..]);
        page[0..8].copy_from_slice(&cs.to_be_bytes());
        let pristine_page = page.clone();
        for (pos, mask) in &case.edits {
            let p = (*pos as usize * page.len()) >> 16;
            page[p] ^= mask;
        }
        // (edits can cancel each other out: then the page is intact and must be accepted)
        match crate::common::guarded(|| judge_blob_index_bytes(&page)) {
            Ok(Ok(true)) if page == pristine_page => {}
            Ok(Ok(true)) => {
                failure = Some(Failure::new("mut:damaged-blob-index-accepted", format!("a blob index damaged by edits {:?} was accepted", case.edits)));
            }
            Ok(Ok(false)) => {}
            Ok(Err(f)) => failure = Some(f),
            Err(f) => failure = Some(Failure::new(format!("mut:panic:{}", f.signature), f.message)),
        }
    }
    CaseReport {
        nontrivial: changed,
        classes: vec![if accepted { "accepted(edit-outside-checksummed-bytes)" } else { "rejected" }],
        discarded: false,
        failure,
        tolerated: vec![],
    }
}

// ---------------------------------------------------------------------------------- (c) disk tier

#[derive(Clone, Debug, Serialize, Deserialize)]
pub struct TierCase {
    pub compression: u8,
    pub block_kib: usize,
    /// value lengths relative to the per-entry limit
    pub deltas: Vec<i32>,
    pub compressible: bool,
}

pub fn tier_case() -> impl Strategy<Value = TierCase> {
    (0u8..3, prop_oneof![Just(16usize), Just(32), Just(64)], prop::collection::vec(prop_oneof![-3i32..=3, -5000i32..=600, Just(-4096), Just(-4097), Just(-4095)], 1..=6), any::<bool>())
        .prop_map(|(compression, block_kib, deltas, compressible)| TierCase { compression, block_kib, deltas, compressible })
}

pub fn exec_tier(case: &TierCase) -> CaseReport {
    use crate::{
        hasher::HashSpec,
        hybsim::{HybCfg, HybSim, KeyClass, LookupOut},
        memsim::Algo,
    };
    let block_size = case.block_kib * 1024;
    let cfg = HybCfg {
        write_on_insertion: true,
        algo: Algo::Fifo,
        mem_capacity: 4 << 20,
        mem_shards: 1,
        tombstone: false,
        compression: case.compression,
        flushers: 1,
        reclaimers: 1,
        blocks: 8,
        block_size,
        blob_index_size: 4096,
        clean_block_threshold: 1,
        flush_on_close: true,
        hash: HashSpec::Identity,
        key_class: vec![KeyClass::DiskAllowed; 8],
        buffer_pool_size: 4 * block_size,
        submit_queue_threshold: 1 << 30,
        admission_reject: vec![],
        reinsert: vec![],
        indexer_shards: 4,
        invalid_ratio_picker: false,
        hold_io: false,
        probation_pct: 10,
    };
    let max = cfg.max_value_len() as i64;
    let mut sim = HybSim::new(cfg.clone());
    let mut failure = None;
    let mut accepted_any = false;
    let mut rejected_any = false;
    for (i, d) in case.deltas.iter().enumerate() {
        let len = (max + *d as i64).max(0) as usize;
        let key = i as u64;
        let version = sim.raw_insert_c(key, len, case.compressible);
        sim.raw_evict_all();
        let _ = sim.raw_wait();
        let out = sim.raw_get(key);
        sim.raw_evict_all();
        sim.raw_settle();
        // independent view of the device
        let image = sim.disk.image();
        let mut on_disk = false;
        let mut partial = false;
        for img in &image {
            for blob in crate::fmtparse::walk_block(img, 4096) {
                for ix in &blob.indices {
                    if ix.hash == key {
                        let abs = blob.offset + ix.offset;
                        match parse_entry(&img[abs..]) {
                            Some(e) if e.checksum_ok && e.sequence == ix.sequence => {
                                if let Some(v) = &e.value {
                                    if matches!(crate::hval::decode_value(v), crate::hval::Decoded::Valid { version: vv, .. } if vv == version) {
                                        on_disk = true;
                                    }
                                }
                            }
                            _ => partial = true,
                        }
                    }
                }
            }
        }
        match out {
            Ok(LookupOut::Hit { decoded: crate::hval::Decoded::Valid { key: k2, version: v2 }, len: l2, .. }) if k2 == key && v2 == version && l2 == len => {
                accepted_any = true;
                if !on_disk {
                    failure = Some(Failure::new("tier:accepted-entry-not-found-by-scan", format!("entry of {len} value bytes (limit {max}) loads, but the independent reader does not find it intact on the device")));
                }
            }
            Ok(LookupOut::Miss) => {
                rejected_any = true;
                if on_disk || partial {
                    failure = Some(Failure::new(
                        "tier:rejected-entry-left-traces",
                        format!("entry of {len} value bytes (limit {max}) is not retrievable, yet the device holds {} for its hash", if partial { "a partial / damaged entry" } else { "the complete entry" }),
                    ));
                }
                if (len as i64) <= max && case.compression == 0 {
                    failure = Some(Failure::new("tier:fitting-entry-rejected", format!("entry of {len} value bytes fits the per-entry limit {max} but was not stored")));
                }
            }
            Ok(other) => failure = Some(Failure::new("tier:truncated-or-wrong-value", format!("entry of {len} value bytes (limit {max}) loads as {other:?}"))),
            Err(_) => failure = Some(Failure::new("tier:lookup-hangs", format!("lookup of entry {i} never resolves"))),
        }
        if failure.is_some() {
            break;
        }
    }
    let _ = sim.finish();
    let mut classes = vec![["none", "zstd", "lz4"][case.compression as usize % 3]];
    if accepted_any {
        classes.push("accepted-near-limit");
    }
    if rejected_any {
        classes.push("rejected-as-a-whole");
    }
    CaseReport {
        nontrivial: accepted_any && rejected_any,
        classes,
        discarded: false,
        failure,
        tolerated: vec![],
    }
}

pub fn check_c08(tier: Tier, seed: u64) -> i32 {
    let mut check = Check::new("C08", "exploration", tier, seed);
    check.rule = "(code) every built-in Code type (14 numeric types at MIN/MAX/0/1/random, floats by bit pattern incl. NaN payloads, bool, String empty/ASCII/multi-byte/4-byte scalars, Vec<u8> and Bytes of length 0..20000 concentrated at page boundaries with incompressible / run / mixed content): decode(encode(x)) == x bitwise, no trailing bytes, and encoding into every too-small buffer returns the size-limit error. (ser) EntrySerializer / EntryDeserializer for five key/value type pairs under none/zstd/lz4: KvInfo lengths == bytes written (independent counting writer), round trip, every cut-off of the destination (all for <= 200 bytes, 48 edge cut-offs + generated ones beyond) is a size-limit error and never Ok, Buffer::push header fields == actual lengths and the independent format reader agrees. (mut) valid entries and blob indexes damaged by 1-4 byte edits / truncation: accepted only if the checksummed bytes are intact and the decoded key/value are the originals. (tier) on hybsim, values at the per-entry limit -5000..+600 bytes under each codec: an accepted entry loads bit-exactly and is found intact by the independent reader, a rejected one is absent as a whole. (serde) the code part again in the check-serde binary built with foyer-common's serde feature (bincode path). Non-trivial = value >= 1 page, or empty, or a cut inside the compressor's frame header/footer, or (tier) both an accepted and a rejected entry in one case.".into();
    check.assumptions = vec!["the quick tier replays the committed seed inputs of the cargo-fuzz targets in-process; the coverage-guided campaigns themselves (cargo +nightly fuzz, ASan, debug assertions) run in the thorough tier".into()];
    // (d) serde/bincode build of the Code impls: runs beside the in-process parts
    let serde_child = spawn_serde(&check);
    let n = tier.pick(60_000, 2_000_000);
    check.run_random("code", n, scalar_strategy, exec_scalar);
    let n = tier.pick(12_000, 400_000);
    check.run_random("ser", n, ser_case, exec_ser);
    let n = tier.pick(40_000, 2_000_000);
    check.run_random("mut", n, mut_case, exec_mut);
    let n = tier.pick(1500, 60_000);
    check.run_random("tier", n, tier_case, exec_tier);
    collect_serde(&check, serde_child);
    // byte-level targets: committed seed / regression inputs through the same oracles (quick and thorough), then
    // coverage-guided libFuzzer campaigns (thorough)
    for t in ["fmt_entry", "fmt_entry_struct", "code_roundtrip", "ser_roundtrip"] {
        crate::fuzzglue::replay_seed_corpus(&check, t);
    }
    if tier == Tier::Thorough {
        crate::fuzzglue::campaign(&check, "code_roundtrip", 20_000_000, 4096);
        crate::fuzzglue::campaign(&check, "ser_roundtrip", 60_000, 512);
        crate::fuzzglue::campaign(&check, "fmt_entry", 20_000_000, 16384);
    }
    check.finish()
}

const SERDE_EXE: &str = "/verif/target/release/check-serde";

fn spawn_serde(check: &Check) -> Option<std::process::Child> {
    if !std::path::Path::new(SERDE_EXE).exists() {
        return None;
    }
    std::process::Command::new(SERDE_EXE)
        .arg(format!("{}", check.seed))
        .arg(check.tier.name())
        .stdout(std::process::Stdio::piped())
        .spawn()
        .ok()
}

fn collect_serde(check: &Check, child: Option<std::process::Child>) {
    let Some(child) = child else {
        check.stats.inconclusive.lock().unwrap().push("check-serde binary not built / not startable".into());
        return;
    };
    match child.wait_with_output() {
        Ok(o) => {
            let text = String::from_utf8_lossy(&o.stdout).to_string();
            if let Some(line) = text.lines().find(|l| l.starts_with("SERDE-RESULT ")) {
                if let Ok(v) = serde_json::from_str::<serde_json::Value>(&line["SERDE-RESULT ".len()..]) {
                    let evals = v["evaluations"].as_u64().unwrap_or(0);
                    check.stats.evaluations.fetch_add(evals, std::sync::atomic::Ordering::Relaxed);
                    check.set_extra("serde_bincode_path", serde_json::json!({"evaluations": evals, "nontrivial": v["nontrivial"], "failed": !v["failure"].is_null()}));
                    if let Some(f) = v["failure"].as_object() {
                        let fail = Failure::new(format!("serde:{}", f["signature"].as_str().unwrap_or("?")), f["message"].as_str().unwrap_or("?").to_string());
                        check.violation("serde", &serde_json::json!({"sub": v["sub"], "case": v["case"]}), &fail);
                    }
                    return;
                }
            }
            check.stats.inconclusive.lock().unwrap().push(format!("check-serde produced no result (exit {:?})", o.status.code()));
        }
        Err(e) => check.stats.inconclusive.lock().unwrap().push(format!("cannot run check-serde: {e}")),
    }
}
