//! C15: a graceful close persists what memory held.

use std::collections::BTreeMap;

use proptest::prelude::*;

use crate::{
    common::{CaseReport, Check, Failure, Tier},
    fmtparse::{WriteKind, classify_write},
    hval::Decoded,
    hybchecks::{CfgDomain, HybCase, cfg_strategy, normalize, split_known},
    hyboracle::{first_shed_step, may_exceed_entry_limit, timeline},
    hybsim::{HOp, HRet, HTrace, HybCfg, HybSim, KeyClass, Loc, LookupOut, Sz, TaskKind, TaskOut},
    simdev::IoKind,
};

#[derive(Default)]
pub struct C15Flags {
    pub resident_at_close: usize,
    pub resident_with_older_disk_copy: bool,
    pub inmem_resident_at_close: bool,
    pub post_close_ops: bool,
    pub second_close: bool,
    pub handle_held_at_close: bool,
    pub no_close_variant: bool,
    pub reclaim_happened: bool,
}

fn clean_writes(cfg: &HybCfg, trace: &HTrace) -> usize {
    let tomb = if cfg.tombstone { Some(0usize) } else { None };
    trace
        .log
        .iter()
        .filter(|(_, r)| r.kind == IoKind::Write)
        .filter(|(_, r)| matches!(classify_write(r.part, r.offset, r.data.as_ref().unwrap(), cfg.blob_index_size, tomb), WriteKind::Clean))
        .count()
}

pub fn judge_c15(cfg: &HybCfg, ops: &[HOp], trace: &HTrace) -> (Vec<Failure>, C15Flags) {
    let mut failures = vec![];
    let mut flags = C15Flags::default();
    let tl = timeline(cfg, ops, trace);
    // locate: snapshot step, first close step, reopen step
    let snap_idx = ops.iter().position(|o| matches!(o, HOp::SnapshotMem));
    let close_idx = ops.iter().position(|o| matches!(o, HOp::Close | HOp::Reopen | HOp::ReopenNoClose | HOp::CloseCrashReopen));
    let reopen_idx = ops.iter().position(|o| matches!(o, HOp::Reopen | HOp::ReopenNoClose | HOp::CloseCrashReopen));
    let (Some(si), Some(ci), Some(ri)) = (snap_idx, close_idx, reopen_idx) else {
        return (failures, flags);
    };
    if trace.steps.len() <= ri {
        // the run stopped early (hang): reported below
        for (i, st) in trace.steps.iter().enumerate() {
            if let Some(t) = st.hang {
                failures.push(Failure::new(
                    format!("hang:{:?}", trace.tasks[t].kind).replace(' ', ""),
                    format!("step {}: {:?} never resolves although all device io has completed and the runtime is quiescent", i + 1, trace.tasks[t].kind),
                ));
            }
        }
        return (failures, flags);
    }
    flags.no_close_variant = matches!(ops[ci], HOp::ReopenNoClose);
    flags.reclaim_happened = clean_writes(cfg, trace) > 0;
    let HRet::MemSnapshot(snapshot) = &trace.steps[si].ret else {
        return (failures, flags);
    };
    flags.resident_at_close = snapshot.len();
    // handles held at close: LRU pin finding
    flags.handle_held_at_close = !tl.held_at_close.is_empty() || tl.disk_only.values().any(|d| d.dropped_after_close);
    flags.post_close_ops = ri > ci + 1;
    flags.second_close = ri > ci && ops[ci + 1..ri].iter().any(|o| matches!(o, HOp::Close));

    // close itself (and a repeated close) must resolve with Ok
    for (i, (op, st)) in ops.iter().zip(trace.steps.iter()).enumerate() {
        if let (HOp::Close, HRet::Task(t)) = (op, &st.ret) {
            match &trace.tasks[*t].out {
                Some(TaskOut::Unit(Ok(()))) => {}
                Some(TaskOut::Unit(Err(e))) => failures.push(Failure::new("close-returns-error", format!("step {}: close() returned error {e}", i + 1))),
                _ => failures.push(Failure::new("hang:Close", format!("step {}: close() never resolves although all device io has completed", i + 1))),
            }
        }
    }
    // no device write after the first close has returned (later writes are ignored), until the reopen
    let tomb = if cfg.tombstone { Some(0usize) } else { None };
    if !flags.no_close_variant && matches!(ops[ci], HOp::Close) {
        let close_log = trace.steps[ci].log_len;
        let before_reopen_log = trace.steps[ri - 1].log_len.max(close_log);
        let gen0: Vec<_> = trace.log.iter().filter(|(g, _)| *g == trace.steps[ci].generation).map(|(_, r)| r).collect();
        for (i, r) in gen0.iter().enumerate() {
            if i >= close_log && i < before_reopen_log && r.kind == IoKind::Write {
                failures.push(Failure::new(
                    "device-write-after-close",
                    format!("a device write (partition {}, offset {}, {} bytes) was issued after close() had returned", r.part, r.offset, r.len),
                ));
                break;
            }
        }
        // flush_on_close disabled: close writes no entry data
        if !cfg.flush_on_close {
            let pre = trace.steps[ci - 1].log_len;
            for (i, r) in gen0.iter().enumerate() {
                if i >= pre && i < close_log && r.kind == IoKind::Write {
                    if let WriteKind::Data(es) = classify_write(r.part, r.offset, r.data.as_ref().unwrap(), cfg.blob_index_size, tomb) {
                        // with held io, entries queued before close() (evicted earlier, possibly loaded back into
                        // memory from the write queue since) are legitimately written while close drains the queue:
                        // the clause is only decidable when nothing was pending, i.e. without held io
                        if !cfg.hold_io && !es.is_empty() {
                            failures.push(Failure::new(
                                "close-wrote-entries-with-flush-on-close-disabled",
                                format!("close() with flush_on_close disabled wrote {} entries to the device", es.len()),
                            ));
                            break;
                        }
                    }
                }
            }
        }
    }
    if flags.no_close_variant {
        return (failures, flags);
    }
    // after reopen: every recorded disk-allowed resident entry must hit with exactly its version
    // Proviso "the resident set fits the flush buffer": entries shed before close() was called (write-queue backlog
    // overflowing under held io) put the case outside the claim; shedding that first happens during close() is only
    // excused if the resident set alone (page-aligned entries) does not fit one flusher's buffer - close() drains the
    // backlog before it hands the resident set to the flushers.
    let shed_step = first_shed_step(cfg, trace);
    let resident_aligned: usize = snapshot
        .iter()
        .filter(|(k, _)| cfg.key_class.get(*k as usize).copied().unwrap_or(KeyClass::DiskAllowed) != KeyClass::MemOnly)
        .map(|(_, v)| tl.version_info.get(v).map(|(_, l)| (*l + crate::hybsim::ENTRY_OVERHEAD).div_ceil(4096) * 4096).unwrap_or(4096))
        .sum();
    let fits = resident_aligned <= (cfg.buffer_pool_size / cfg.flushers) / 4096 * 4096;
    let shed = match shed_step {
        None => false,
        Some(s) if s < ci => true,
        Some(_) => !fits,
    };
    let lookups: BTreeMap<u64, &LookupOut> = trace
        .tasks
        .iter()
        .filter(|t| t.issued_at as usize > ri + 1 - 1 && t.issued_at as usize > ri)
        .filter_map(|t| match (&t.kind, &t.out) {
            (TaskKind::Get { k }, Some(TaskOut::Lookup(o))) => Some((*k, o)),
            _ => None,
        })
        .collect();
    for (key, version) in snapshot {
        let class = cfg.key_class.get(*key as usize).copied().unwrap_or(KeyClass::DiskAllowed);
        let len = tl.version_info.get(version).map(|(_, l)| *l).unwrap_or(0);
        let Some(out) = lookups.get(key) else { continue };
        if class == KeyClass::MemOnly {
            flags.inmem_resident_at_close = true;
            if let LookupOut::Hit { .. } = out {
                failures.push(Failure::new(
                    "in-memory-only-entry-survived-reopen",
                    format!("key {key} is advised in-memory-only and was resident at close; after reopen it is still retrievable: {out:?}"),
                ));
            }
            continue;
        }
        if tl.n_versions_before(*key, ci as u64 + 1) >= 2 {
            flags.resident_with_older_disk_copy = true;
        }
        if !cfg.flush_on_close && !cfg.write_on_insertion {
            continue; // nothing is promised
        }
        if may_exceed_entry_limit(cfg, len) || cfg.admission_reject.contains(&(*key as u8)) || shed || flags.reclaim_happened {
            continue; // provisos of the statement
        }
        let ok = matches!(out, LookupOut::Hit { decoded: Decoded::Valid { key: k, version: v }, .. } if k == key && v == version);
        if !ok {
            let pinned = cfg.algo.is_lru() && tl.held_at_close.contains_key(version);
            let sig = if pinned {
                "lru-pinned-entry-skipped-by-flush-on-close".to_string()
            } else {
                match out {
                    LookupOut::Miss => "resident-entry-lost-at-close".to_string(),
                    LookupOut::Hit { .. } => "resident-entry-older-version-after-reopen".to_string(),
                    LookupOut::Err(e) => format!("lookup-error-after-reopen:{e}"),
                }
            };
            failures.push(Failure::new(
                sig,
                format!("key {key} was resident in memory with version {version} when close() was called (flush_on_close {}, policy {}); after reopen get({key}) = {out:?}", cfg.flush_on_close, if cfg.write_on_insertion { "write-on-insertion" } else { "write-on-eviction" }),
            ));
        }
    }
    (failures, flags)
}

fn pre_op() -> impl Strategy<Value = HOp> {
    let k = 0u8..6;
    let sz = prop_oneof![4 => any::<u16>().prop_map(Sz::Small), 2 => (1u8..=2, -1i8..=1).prop_map(|(pages, delta)| Sz::PageEdge { pages, delta })];
    prop_oneof![
        10 => (k.clone(), sz.clone(), prop::bool::weighted(0.15), any::<bool>()).prop_map(|(k, sz, hold, c)| HOp::Insert { k, sz, loc: Loc::Default, hold, compressible: c }),
        5 => k.clone().prop_map(|k| HOp::Get { k }),
        2 => (k.clone(), sz).prop_map(|(k, sz)| HOp::Fetch { k, sz }),
        2 => k.clone().prop_map(|k| HOp::Remove { k }),
        2 => Just(HOp::MemEvictAll),
        1 => any::<u16>().prop_map(|h| HOp::DropHandle { h }),
    ]
}

fn post_op() -> impl Strategy<Value = HOp> {
    let k = 0u8..6;
    prop_oneof![
        3 => (k.clone(), any::<u16>()).prop_map(|(k, n)| HOp::Insert { k, sz: Sz::Small(n), loc: Loc::Default, hold: false, compressible: false }),
        2 => k.clone().prop_map(|k| HOp::Remove { k }),
        2 => Just(HOp::Close),
        1 => k.clone().prop_map(|k| HOp::Get { k }),
        1 => Just(HOp::MemEvictAll),
    ]
}

pub fn c15_case() -> impl Strategy<Value = HybCase> {
    (
        cfg_strategy(CfgDomain { force_tombstone: None, ..Default::default() }),
        prop::collection::vec(pre_op(), 0..=20),
        prop::collection::vec(post_op(), 0..=4),
        0u8..8,
        16000usize..120000,
        any::<bool>(),
    )
        .prop_map(|(mut cfg, pre, post, variant, mem, hold)| {
            let no_close = variant == 0;
            let crash_at_close = variant == 1 || variant == 2;
            // tight: io is held while the history runs, so evictions / inserts pile up in the write queue, and the
            // flush buffer is only a little larger than what memory can hold: backlog + resident set exceed it,
            // each alone fits
            let tight = variant == 3 || variant == 4;
            cfg.hold_io = (crash_at_close && hold) || tight;
            // provisos: the device is large enough that nothing is reclaimed, the flush buffer holds the resident set
            cfg.blocks = 8;
            cfg.block_size = 64 * 1024;
            cfg.flushers = cfg.flushers.min(2);
            cfg.clean_block_threshold = 1;
            cfg.mem_capacity = mem;
            cfg.buffer_pool_size = if tight { cfg.flushers * 16 * 4096 } else { cfg.flushers * 16 * cfg.block_size };
            let mut ops = vec![];
            if tight {
                // memory holds six two-page entries (48 KiB <= the 64 KiB buffer); first a backlog of the same size is
                // built (inserted, evicted, unwritten because io is held), then memory is filled again
                cfg.mem_capacity = 60_000;
                for k in 0..6u8 {
                    ops.push(HOp::Insert { k, sz: Sz::PageEdge { pages: 2, delta: -1 }, loc: Loc::Default, hold: false, compressible: false });
                }
                ops.push(HOp::MemEvictAll);
                for k in 0..6u8 {
                    ops.push(HOp::Insert { k, sz: Sz::PageEdge { pages: 2, delta: -1 }, loc: Loc::Default, hold: false, compressible: false });
                }
            }
            ops.extend(pre);
            ops.push(HOp::SnapshotMem);
            if no_close {
                ops.push(HOp::ReopenNoClose);
            } else if crash_at_close {
                ops.push(HOp::CloseCrashReopen);
            } else {
                ops.push(HOp::Close);
                ops.extend(post);
                ops.push(HOp::Reopen);
            }
            for k in 0..6u8 {
                ops.push(HOp::Get { k });
            }
            HybCase { cfg, ops }
        })
}

pub fn exec_c15(case: &HybCase) -> CaseReport {
    let mut case = normalize(case);
    // after normalisation several Get ops may target the same key: harmless
    case.ops.dedup_by(|a, b| matches!((a, b), (HOp::Get { k: x }, HOp::Get { k: y }) if x == y) && false);
    let trace = HybSim::run(case.cfg.clone(), &case.ops);
    if std::env::var("VERIF_DUMP").is_ok() {
        eprintln!("{}", serde_json::to_string_pretty(&trace).unwrap());
    }
    let (failures, f) = judge_c15(&case.cfg, &case.ops, &trace);
    let mut classes: Vec<&'static str> = vec![if case.cfg.write_on_insertion { "write-on-insertion" } else { "write-on-eviction" }];
    macro_rules! cls {
        ($cond:expr, $name:expr) => {
            if $cond {
                classes.push($name);
            }
        };
    }
    cls!(case.cfg.flush_on_close, "flush-on-close");
    cls!(!case.cfg.flush_on_close, "no-flush-on-close");
    cls!(f.resident_at_close == 0, "empty-resident-set");
    cls!(f.resident_at_close >= 3, "resident-set>=3");
    cls!(f.resident_with_older_disk_copy, "resident-entry-updated-after-first-disk-write");
    cls!(f.inmem_resident_at_close, "in-memory-only-resident-at-close");
    cls!(f.post_close_ops, "ops-after-close");
    cls!(f.second_close, "repeated-close");
    cls!(f.handle_held_at_close, "handle-held-at-close");
    cls!(f.no_close_variant, "drop-without-close");
    cls!(case.ops.iter().any(|o| matches!(o, HOp::CloseCrashReopen)), "process-dies-when-close-returns");
    cls!(case.cfg.hold_io, "held-io");
    cls!(case.cfg.buffer_pool_size / case.cfg.flushers <= 16 * 4096, "tight-flush-buffer+backlog");
    cls!(f.reclaim_happened, "reclaim-happened(proviso)");
    let nontrivial = f.resident_with_older_disk_copy || f.inmem_resident_at_close || f.second_close;
    split_known("C15", failures, nontrivial, classes, false)
}

pub fn check_c15(tier: Tier, seed: u64) -> i32 {
    let mut check = Check::new("C15", "exploration", tier, seed);
    check.rule = "hybsim histories (<= 20 inserts / overwrites of keys already on disk / in-memory-only entries / lookups that load from disk / removes / handle holds) followed by: snapshot of the memory tier, close(), up to 4 operations on the closed cache (inserts, removes, a second close, lookups), reopen, and a get of every key; both policies, flush_on_close on/off, five algorithms, tombstone on/off, compression; 12% of the cases drop the cache without calling close. Oracle: close resolves with Ok (twice); after the first close returned no device write is issued; with flush_on_close disabled close writes no entry data; after reopen every entry that was resident at close and is not advised in-memory-only hits with exactly that version (a miss is a violation), in-memory-only residents miss. Provisos enforced by construction and checked from the log: resident set fits the flush buffer, no block reclaimed. Non-trivial = a resident entry with an older copy on disk, or an in-memory-only resident at close, or a repeated close.".into();
    check.assumptions = vec![
        "entries that cannot be written at all (larger than the per-entry limit, rejected by the admission filter) are outside the claim".into(),
        "for drop-without-close only 'close resolves / nothing is corrupted' is asserted (staleness is C01's claim)".into(),
    ];
    let cases = tier.pick(40_000, 1_000_000);
    check.run_random("random", cases, c15_case, exec_c15);
    check.finish()
}
