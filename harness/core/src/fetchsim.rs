//! fetchsim: manual executor for fetch histories on `foyer::Cache` (C06, C11 memory half).
//!
//! The harness owns: when callers arrive, when the "disk lookup" (optional fetch) and the origin fetch resolve and
//! with what, when the fetch tasks get to run (`Settle`), caller drops, cancellation of the fetch tasks (dropping
//! the runtime) and concurrent insert/remove. A reference state machine of the documented single-flight protocol
//! predicts, for every caller, whether it must be answered at each settle point and with what.

use std::{
    collections::BTreeMap,
    future::Future,
    pin::Pin,
    sync::Arc,
    task::{Context, Poll, Waker},
};

use foyer::{Cache, CacheBuilder, CacheEntry, CacheProperties, Error, ErrorKind, GetOrFetch, Spawner};
use foyer_memory::FetchTarget;
use futures_util::{FutureExt, task::noop_waker};
use parking_lot::Mutex;
use serde::{Deserialize, Serialize};

use crate::{
    common::{Failure, midx},
    hasher::{HashSpec, SpecHasher},
    memsim::Algo,
};

#[derive(Debug)]
pub struct FVal {
    pub id: u64,
    pub key: u64,
    /// rejected by the memory filter: the insert is a disk-only (phantom) insert
    pub reject: bool,
}

type Entry = CacheEntry<u64, FVal, SpecHasher>;

#[derive(Clone, Copy, Debug, Serialize, Deserialize, PartialEq, Eq)]
pub enum CallKind {
    /// `Cache::get_or_fetch(key, fetch)`
    Fetch,
    /// `get_or_fetch_inner` with only an optional (disk) fetch — what `HybridCache::get` does
    LookupOnly,
    /// optional (disk) fetch + required (origin) fetch — what `HybridCache::get_or_fetch` does
    FetchWithDisk,
}

#[derive(Clone, Copy, Debug, Serialize, Deserialize, PartialEq, Eq)]
pub enum DiskRes {
    Hit,
    Miss,
    Err,
}

#[derive(Clone, Debug, Serialize, Deserialize, PartialEq, Eq)]
pub enum FOp {
    Call { k: u8, kind: CallKind },
    DiskResolve { i: u16, res: DiskRes },
    FetchResolve { i: u16, ok: bool },
    /// the origin of call `i` produces its value, and while it does (inside that same poll of the fetch task, i.e.
    /// after the task last looked at its flight) an explicit insert of the key runs to completion - what a second
    /// thread can do at any time. Equivalent to `Insert` followed by `FetchResolve` for the protocol.
    FetchResolveWhileInserting { i: u16 },
    DropCaller { j: u16 },
    Cancel,
    Insert { k: u8 },
    /// explicit insert of a value the memory filter rejects: a disk-only (phantom) entry - it answers the waiters of a
    /// pending flight like any insert, replaces the resident entry of the key, and is itself not kept in memory
    #[serde(alias = "InsertPhantom")]
    InsertDiskOnly { k: u8 },
    Remove { k: u8 },
    Get { k: u8 },
    Settle,
}

#[derive(Clone, Debug, Serialize, Deserialize)]
pub struct FCase {
    pub algo: Algo,
    pub shards: usize,
    pub ops: Vec<FOp>,
    /// key -> hash mapping (collision runs of C17)
    #[serde(default)]
    pub hash: HashSpec,
}

// ---- harness futures ----------------------------------------------------------------------------------------

struct Slot<T> {
    polled: bool,
    result: Option<T>,
    waker: Option<Waker>,
    dropped: bool,
    resolved: bool,
    /// runs inside the poll that returns the result, before it returns: "something else happened while the origin
    /// was producing its value" (the harness's stand-in for a second thread)
    pre: Option<Box<dyn FnOnce() + Send>>,
}

struct HFut<T>(Arc<Mutex<Slot<T>>>);

impl<T> Future for HFut<T> {
    type Output = T;
    fn poll(self: Pin<&mut Self>, cx: &mut Context<'_>) -> Poll<T> {
        let mut s = self.0.lock();
        s.polled = true;
        match s.result.take() {
            Some(r) => {
                let pre = s.pre.take();
                drop(s);
                if let Some(pre) = pre {
                    pre();
                }
                Poll::Ready(r)
            }
            None => {
                s.waker = Some(cx.waker().clone());
                Poll::Pending
            }
        }
    }
}

impl<T> Drop for HFut<T> {
    fn drop(&mut self) {
        self.0.lock().dropped = true;
    }
}

fn slot<T>() -> Arc<Mutex<Slot<T>>> {
    Arc::new(Mutex::new(Slot {
        polled: false,
        result: None,
        waker: None,
        dropped: false,
        resolved: false,
        pre: None,
    }))
}

fn resolve<T>(s: &Arc<Mutex<Slot<T>>>, v: T) -> bool {
    let mut g = s.lock();
    if g.resolved || g.dropped {
        return false;
    }
    g.resolved = true;
    g.result = Some(v);
    if let Some(w) = g.waker.take() {
        drop(g);
        w.wake();
    }
    true
}

type DiskOut = foyer::Result<Option<FetchTarget<u64, FVal, CacheProperties>>>;
type OriginOut = Result<FVal, anyhow::Error>;

// ---- observed outcomes --------------------------------------------------------------------------------------

#[derive(Clone, Debug, PartialEq, Eq, Serialize)]
pub enum Outcome {
    Entry(u64),
    None,
    Err(String),
}

fn outcome_of(r: foyer::Result<Option<Entry>>) -> (Outcome, Option<Entry>) {
    match r {
        Ok(Some(e)) => (Outcome::Entry(e.value().id), Some(e)),
        Ok(None) => (Outcome::None, None),
        Err(e) => (Outcome::Err(format!("{:?}", e.kind())), None),
    }
}

struct Caller {
    fut: Option<Pin<Box<GetOrFetch<u64, FVal, SpecHasher>>>>,
    key: u64,
    kind: CallKind,
    result: Option<Outcome>,
    /// keep the entry alive until the end (handles held by callers)
    entry: Option<Entry>,
    dropped: bool,
    disk: Option<Arc<Mutex<Slot<DiskOut>>>>,
    origin: Option<Arc<Mutex<Slot<OriginOut>>>>,
}

// ---- reference model ----------------------------------------------------------------------------------------

#[derive(Clone, Debug, PartialEq, Eq)]
enum FState {
    Init,
    Optional,
    Required(usize),
    Done,
}

#[derive(Clone, Debug)]
struct Flight {
    key: u64,
    has_opt: bool,
    /// call index whose disk future this flight polls
    opt_call: usize,
    leader_req: Option<usize>,
    donated: Option<usize>,
    waiters: Vec<usize>,
    state: FState,
    closed: bool,
    closed_by_insert: bool,
}

#[derive(Clone, Debug, Default)]
pub struct FetchFlags {
    pub overlapping_callers: bool,
    pub dropped_caller_in_flight: bool,
    pub failed_fetch: bool,
    pub cancel_with_pending: bool,
    pub donated_closure: bool,
    pub insert_during_flight_with_waiter: bool,
    pub late_fetch_after_insert: bool,
    pub disk_hit: bool,
    pub disk_err: bool,
    pub refetch_after_failure: bool,
    pub insert_during_final_poll: bool,
}

pub struct FetchJudgement {
    pub c06: Option<Failure>,
    pub c11: Option<Failure>,
    pub flags: FetchFlags,
}

struct Model {
    resident: BTreeMap<u64, u64>,
    table: BTreeMap<u64, usize>,
    flights: Vec<Flight>,
    /// expected outcome per caller once notified
    expect: Vec<Option<Outcome>>,
    /// predicted polled flags
    disk_polled: Vec<bool>,
    origin_polled: Vec<bool>,
    /// caller -> flight closed by an explicit insert (C11 attribution)
    by_insert: Vec<bool>,
    /// origin / disk futures (call indices) that belonged to a flight closed by an explicit insert: whatever they
    /// resolve to afterwards is a "late" result that must never surface
    orphan_origins: Vec<usize>,
    orphan_disks: Vec<usize>,
    failed_keys: Vec<u64>,
    flags: FetchFlags,
}

fn is_late(m: &Model, disk: &[Option<DiskVal>], origin: &[Option<Result<u64, ()>>], id: u64) -> bool {
    m.orphan_origins.iter().any(|o| origin[*o] == Some(Ok(id)))
        || m.orphan_disks.iter().any(|c| matches!(&disk[*c], Some(DiskVal::Hit(h)) if *h == id))
}

// what the harness futures resolved to (model needs it)
#[derive(Clone, Debug)]
enum DiskVal {
    Hit(u64),
    Miss,
    Err,
}

impl Model {
    fn notify(&mut self, waiters: &[usize], out: Outcome, by_insert: bool) {
        for &w in waiters {
            if self.expect[w].is_none() {
                self.expect[w] = Some(out.clone());
                self.by_insert[w] = by_insert;
            }
        }
    }

    /// an insert into the cache (explicit or by a fetch task): takes whatever flight is in the table for this key
    fn emplace(&mut self, key: u64, id: u64, explicit: bool) {
        self.resident.insert(key, id);
        if let Some(f) = self.table.remove(&key) {
            let waiters = self.flights[f].waiters.clone();
            self.flights[f].closed = true;
            if explicit {
                self.flights[f].closed_by_insert = true;
                if !waiters.is_empty() {
                    self.flags.insert_during_flight_with_waiter = true;
                }
                let fl = &self.flights[f];
                if let Some(o) = fl.leader_req {
                    self.orphan_origins.push(o);
                }
                if let Some(o) = fl.donated {
                    self.orphan_origins.push(o);
                }
                if let FState::Required(o) = fl.state {
                    self.orphan_origins.push(o);
                }
                if fl.has_opt && matches!(fl.state, FState::Init | FState::Optional) {
                    self.orphan_disks.push(fl.opt_call);
                }
            }
            self.notify(&waiters, Outcome::Entry(id), explicit);
        }
    }

    fn required(&mut self, f: usize, no_fetch: Outcome) {
        if let Some(o) = self.flights[f].leader_req.take() {
            self.flights[f].state = FState::Required(o);
            return;
        }
        let key = self.flights[f].key;
        if self.table.get(&key) != Some(&f) {
            self.flights[f].state = FState::Done;
            return;
        }
        if let Some(o) = self.flights[f].donated.take() {
            self.flags.donated_closure = true;
            self.flights[f].state = FState::Required(o);
            return;
        }
        self.table.remove(&key);
        self.flights[f].closed = true;
        let waiters = self.flights[f].waiters.clone();
        self.notify(&waiters, no_fetch, false);
        self.flights[f].state = FState::Done;
    }

    fn advance(&mut self, f: usize, disk: &[Option<DiskVal>], origin: &[Option<Result<u64, ()>>]) {
        loop {
            match self.flights[f].state.clone() {
                FState::Done => return,
                FState::Init => {
                    if self.flights[f].has_opt {
                        self.flights[f].state = FState::Optional;
                    } else {
                        self.required(f, Outcome::None);
                    }
                }
                FState::Optional => {
                    if self.flights[f].closed {
                        self.flights[f].state = FState::Done;
                        return;
                    }
                    let c = self.flights[f].opt_call;
                    // the future is polled only when the flight is still open
                    self.disk_polled[c] = true;
                    match &disk[c] {
                        None => return,
                        Some(DiskVal::Hit(id)) => {
                            self.flags.disk_hit = true;
                            let key = self.flights[f].key;
                            self.emplace(key, *id, false);
                            self.flights[f].state = FState::Done;
                        }
                        Some(DiskVal::Miss) => self.required(f, Outcome::None),
                        Some(DiskVal::Err) => {
                            self.flags.disk_err = true;
                            self.required(f, Outcome::Err("Io".into()))
                        }
                    }
                }
                FState::Required(o) => {
                    if self.flights[f].closed {
                        self.flights[f].state = FState::Done;
                        return;
                    }
                    self.origin_polled[o] = true;
                    match &origin[o] {
                        None => return,
                        Some(Ok(id)) => {
                            let key = self.flights[f].key;
                            self.emplace(key, *id, false);
                            self.flights[f].state = FState::Done;
                        }
                        Some(Err(())) => {
                            self.flags.failed_fetch = true;
                            let key = self.flights[f].key;
                            self.failed_keys.push(key);
                            if self.table.get(&key) == Some(&f) {
                                self.table.remove(&key);
                                self.flights[f].closed = true;
                                let waiters = self.flights[f].waiters.clone();
                                self.notify(&waiters, Outcome::Err("External".into()), false);
                            }
                            self.flights[f].state = FState::Done;
                        }
                    }
                }
            }
        }
    }
}

// ---- the interpreter ----------------------------------------------------------------------------------------

fn new_rt() -> tokio::runtime::Runtime {
    tokio::runtime::Builder::new_current_thread().build().unwrap()
}

pub fn run_fetch_case(case: &FCase) -> FetchJudgement {
    let cache: Cache<u64, FVal, SpecHasher> = CacheBuilder::new(1 << 20)
        .with_shards(case.shards)
        .with_eviction_config(case.algo.eviction_config())
        .with_hash_builder(SpecHasher::new(case.hash.clone()))
        .with_filter(|_k: &u64, v: &FVal| !v.reject)
        .build();
    let mut rt = Some(new_rt());
    let mut next_id = 1u64;
    let mut callers: Vec<Caller> = vec![];
    let mut disk_vals: Vec<Option<DiskVal>> = vec![];
    let mut origin_vals: Vec<Option<Result<u64, ()>>> = vec![];
    let mut m = Model {
        resident: BTreeMap::new(),
        table: BTreeMap::new(),
        flights: vec![],
        expect: vec![],
        disk_polled: vec![],
        origin_polled: vec![],
        by_insert: vec![],
        orphan_origins: vec![],
        orphan_disks: vec![],
        failed_keys: vec![],
        flags: FetchFlags::default(),
    };
    let mut c06: Option<Failure> = None;
    let mut c11: Option<Failure> = None;
    let mut held: Vec<Entry> = vec![];
    let held_async: Arc<Mutex<Vec<Entry>>> = Arc::new(Mutex::new(vec![]));
    // steps at which each origin was first seen polled, per key last explicit insert step (single-flight clause)
    let mut origin_polled_step: Vec<Option<usize>> = vec![];
    let mut last_insert_step: BTreeMap<u64, usize> = BTreeMap::new();

    macro_rules! fail06 {
        ($sig:expr, $($arg:tt)*) => {
            if c06.is_none() { c06 = Some(Failure::new($sig, format!($($arg)*))); }
        };
    }
    macro_rules! fail11 {
        ($sig:expr, $($arg:tt)*) => {
            if c11.is_none() { c11 = Some(Failure::new($sig, format!($($arg)*))); }
        };
    }

    let mut ops: Vec<FOp> = case.ops.clone();
    // epilogue: resolve everything that is still open, settle, twice
    ops.push(FOp::Settle);
    let n_user_ops = case.ops.len();
    let mut epilogue_round = 0;

    let mut step = 0usize;
    while step < ops.len() {
        let op = ops[step].clone();
        match &op {
            FOp::Call { k, kind } => {
                let key = *k as u64;
                let idx = callers.len();
                let disk_slot = slot::<DiskOut>();
                let origin_slot = slot::<OriginOut>();
                let fut = {
                    let _g = rt.as_ref().unwrap().enter();
                    match kind {
                        CallKind::Fetch => {
                            let of = HFut(origin_slot.clone());
                            cache.get_or_fetch(&key, move || of)
                        }
                        CallKind::LookupOnly | CallKind::FetchWithDisk => {
                            let df = HFut(disk_slot.clone());
                            let of = HFut(origin_slot.clone());
                            let with_req = *kind == CallKind::FetchWithDisk;
                            cache.get_or_fetch_inner(
                                &key,
                                move || Some(Box::new(move |_: &mut ()| df.boxed()) as _),
                                move || {
                                    if with_req {
                                        Some(Box::new(move |_: &mut ()| {
                                            async move {
                                                match of.await {
                                                    Ok(v) => Ok(FetchTarget::from(v)),
                                                    Err(e) => Err(Error::new(ErrorKind::External, "fetch failed").with_source(e)),
                                                }
                                            }
                                            .boxed()
                                        }) as _)
                                    } else {
                                        None
                                    }
                                },
                                (),
                                &Spawner::current(),
                            )
                        }
                    }
                };
                callers.push(Caller {
                    fut: Some(Box::pin(fut)),
                    key,
                    kind: *kind,
                    result: None,
                    entry: None,
                    dropped: false,
                    disk: Some(disk_slot),
                    origin: Some(origin_slot),
                });
                disk_vals.push(None);
                origin_vals.push(None);
                origin_polled_step.push(None);
                m.expect.push(None);
                m.by_insert.push(false);
                m.disk_polled.push(false);
                m.origin_polled.push(false);
                // model
                let has_opt = *kind != CallKind::Fetch;
                let has_req = *kind != CallKind::LookupOnly;
                if let Some(id) = m.resident.get(&key) {
                    m.expect[idx] = Some(Outcome::Entry(*id));
                } else if let Some(f) = m.table.get(&key).copied() {
                    m.flights[f].waiters.push(idx);
                    m.flags.overlapping_callers = true;
                    // a joining caller's fetch closure is kept only if none is stored yet (the leader's own closure is
                    // not in the table)
                    if has_req && m.flights[f].donated.is_none() {
                        m.flights[f].donated = Some(idx);
                    }
                } else {
                    if m.failed_keys.contains(&key) {
                        m.flags.refetch_after_failure = true;
                    }
                    m.flights.push(Flight {
                        key,
                        has_opt,
                        opt_call: idx,
                        leader_req: if has_req { Some(idx) } else { None },
                        donated: None,
                        waiters: vec![idx],
                        state: FState::Init,
                        closed: false,
                        closed_by_insert: false,
                    });
                    m.table.insert(key, m.flights.len() - 1);
                }
            }
            FOp::DiskResolve { i, res } => {
                if !callers.is_empty() {
                    let i = midx(*i, callers.len());
                    if disk_vals[i].is_none() {
                        let (val, out): (DiskVal, DiskOut) = match res {
                            DiskRes::Hit => {
                                let id = next_id;
                                next_id += 1;
                                (
                                    DiskVal::Hit(id),
                                    Ok(Some(FetchTarget::Entry {
                                        value: FVal { id, key: callers[i].key, reject: false },
                                        properties: CacheProperties::default(),
                                    })),
                                )
                            }
                            DiskRes::Miss => (DiskVal::Miss, Ok(None)),
                            DiskRes::Err => (DiskVal::Err, Err(Error::new(ErrorKind::Io, "simulated disk error"))),
                        };
                        if resolve(callers[i].disk.as_ref().unwrap(), out) {
                            disk_vals[i] = Some(val);
                        }
                    }
                }
            }
            FOp::FetchResolve { i, ok } => {
                if !callers.is_empty() {
                    let i = midx(*i, callers.len());
                    if origin_vals[i].is_none() {
                        let id = next_id;
                        let out: OriginOut = if *ok {
                            Ok(FVal { id, key: callers[i].key, reject: false })
                        } else {
                            Err(anyhow::anyhow!("simulated origin failure"))
                        };
                        if resolve(callers[i].origin.as_ref().unwrap(), out) {
                            if *ok {
                                next_id += 1;
                                origin_vals[i] = Some(Ok(id));
                            } else {
                                origin_vals[i] = Some(Err(()));
                            }
                        }
                    }
                }
            }
            FOp::FetchResolveWhileInserting { i } => {
                if !callers.is_empty() {
                    let i = midx(*i, callers.len());
                    let awaiting = {
                        let g = callers[i].origin.as_ref().unwrap().lock();
                        g.polled && !g.resolved && !g.dropped
                    };
                    // a fetch whose flight is already closed will not poll its origin again: nothing can happen
                    // "during its final poll"
                    if origin_vals[i].is_none() && awaiting && !m.orphan_origins.contains(&i) {
                        let key = callers[i].key;
                        // the explicit insert (gets the smaller id: it is issued first)
                        let ins_id = next_id;
                        next_id += 1;
                        let id = next_id;
                        next_id += 1;
                        let (c2, h2) = (cache.clone(), held_async.clone());
                        callers[i].origin.as_ref().unwrap().lock().pre = Some(Box::new(move || {
                            let e = c2.insert(key, FVal { id: ins_id, key, reject: false });
                            h2.lock().push(e);
                        }));
                        if resolve(callers[i].origin.as_ref().unwrap(), Ok(FVal { id, key, reject: false })) {
                            origin_vals[i] = Some(Ok(id));
                            // protocol: insert returns, then the fetch result arrives
                            m.emplace(key, ins_id, true);
                            last_insert_step.insert(key, step);
                            m.flags.insert_during_final_poll = true;
                            ops.insert(step + 1, FOp::Settle);
                        } else {
                            callers[i].origin.as_ref().unwrap().lock().pre = None;
                        }
                    }
                }
            }
            FOp::DropCaller { j } => {
                if !callers.is_empty() {
                    let j = midx(*j, callers.len());
                    if callers[j].result.is_none() && !callers[j].dropped {
                        callers[j].dropped = true;
                        callers[j].fut = None;
                        if m.expect[j].is_none() {
                            m.flags.dropped_caller_in_flight = true;
                        }
                    }
                }
            }
            FOp::Cancel => {
                // drop the runtime: every fetch task is dropped
                let pending = (0..callers.len()).any(|j| m.expect[j].is_none() && !callers[j].dropped);
                if pending {
                    m.flags.cancel_with_pending = true;
                }
                drop(rt.take());
                rt = Some(new_rt());
                for f in 0..m.flights.len() {
                    if m.flights[f].state != FState::Done {
                        let key = m.flights[f].key;
                        if m.table.get(&key) == Some(&f) {
                            m.table.remove(&key);
                            m.flights[f].closed = true;
                            let waiters = m.flights[f].waiters.clone();
                            m.notify(&waiters, Outcome::Err("TaskCancelled".into()), false);
                        }
                        m.flights[f].state = FState::Done;
                    }
                }
            }
            FOp::Insert { k } => {
                let key = *k as u64;
                let id = next_id;
                next_id += 1;
                let e = cache.insert(key, FVal { id, key, reject: false });
                held.push(e);
                m.emplace(key, id, true);
                last_insert_step.insert(key, step);
            }
            FOp::InsertDiskOnly { k } => {
                let key = *k as u64;
                let id = next_id;
                next_id += 1;
                let e = cache.insert(key, FVal { id, key, reject: true });
                held.push(e);
                m.emplace(key, id, true);
                // the value itself goes to the disk tier, not into memory
                m.resident.remove(&key);
                last_insert_step.insert(key, step);
            }
            FOp::Remove { k } => {
                let key = *k as u64;
                let got = cache.remove(&key).map(|e| e.value().id);
                let want = m.resident.remove(&key);
                if got != want {
                    let late = got.map(|g| is_late(&m, &disk_vals, &origin_vals, g)).unwrap_or(false);
                    if late {
                        fail11!("late-fetch-replaced-insert", "step {step}: remove({key}) found entry {got:?} produced by a fetch that resolved after an explicit insert had returned (expected {want:?})");
                    } else {
                        fail06!("cache-content-mismatch", "step {step}: remove({key}) returned entry {got:?}, model expects {want:?}");
                    }
                }
            }
            FOp::Get { k } => {
                let key = *k as u64;
                let got = cache.get(&key).map(|e| e.value().id);
                let want = m.resident.get(&key).copied();
                if got != want {
                    let late = got.map(|g| is_late(&m, &disk_vals, &origin_vals, g)).unwrap_or(false);
                    if late {
                        fail11!("late-fetch-replaced-insert", "step {step}: get({key}) returned entry {got:?} produced by a fetch that resolved after an explicit insert had returned (expected {want:?})");
                    } else if want.is_none() && m.failed_keys.contains(&key) && got.is_some() {
                        fail06!("failed-fetch-cached-something", "step {step}: get({key}) hit {got:?} although the only fetch of this key failed");
                    } else {
                        fail06!("cache-content-mismatch", "step {step}: get({key}) returned entry {got:?}, model expects {want:?}");
                    }
                }
            }
            FOp::Settle => {
                // let the fetch tasks run
                rt.as_ref().unwrap().block_on(async {
                    for _ in 0..8 {
                        tokio::task::yield_now().await;
                    }
                });
                // model: advance flights in creation order until fixpoint
                loop {
                    let before: Vec<FState> = m.flights.iter().map(|f| f.state.clone()).collect();
                    for f in 0..m.flights.len() {
                        m.advance(f, &disk_vals, &origin_vals);
                    }
                    let after: Vec<FState> = m.flights.iter().map(|f| f.state.clone()).collect();
                    if before == after {
                        break;
                    }
                }
                // observe callers
                let waker = noop_waker();
                let mut cx = Context::from_waker(&waker);
                for j in 0..callers.len() {
                    if callers[j].dropped || callers[j].result.is_some() {
                        continue;
                    }
                    let r = callers[j].fut.as_mut().unwrap().as_mut().poll_inner(&mut cx);
                    match r {
                        Poll::Ready(r) => {
                            let (o, e) = outcome_of(r);
                            callers[j].result = Some(o.clone());
                            callers[j].entry = e;
                            callers[j].fut = None;
                            match &m.expect[j] {
                                None => {
                                    fail06!("answered-early", "step {step}: caller {j} (key {}, {:?}) resolved to {o:?} although its flight is still open in the reference protocol", callers[j].key, callers[j].kind);
                                }
                                Some(want) => {
                                    let ok = o == *want
                                        || (matches!(want, Outcome::Err(w) if w == "TaskCancelled") && matches!(&o, Outcome::Err(g) if g == "ChannelClosed"));
                                    if !ok {
                                        let late = matches!(&o, Outcome::Entry(g) if is_late(&m, &disk_vals, &origin_vals, *g));
                                        if m.by_insert[j] || late {
                                            fail11!(
                                                if late { "waiter-got-late-fetch-result" } else { "waiter-did-not-get-inserted-value" },
                                                "step {step}: caller {j} (key {}) was waiting when insert returned; it must receive {want:?} but got {o:?}", callers[j].key
                                            );
                                        } else {
                                            let sig = match (want, &o) {
                                                (Outcome::Err(_), Outcome::Entry(_)) => "error-not-propagated",
                                                (Outcome::Entry(_), Outcome::Entry(_)) => "different-entry-for-same-flight",
                                                (Outcome::Err(w), Outcome::Err(_)) if w == "TaskCancelled" => "wrong-cancel-error",
                                                (_, Outcome::None) => "resolved-to-none",
                                                _ => "wrong-answer",
                                            };
                                            fail06!(sig, "step {step}: caller {j} (key {}, {:?}) resolved to {o:?}, the protocol requires {want:?}", callers[j].key, callers[j].kind);
                                        }
                                    }
                                }
                            }
                        }
                        Poll::Pending => {
                            if let Some(want) = &m.expect[j] {
                                fail06!(
                                    if step >= n_user_ops { "caller-hangs" } else { "caller-not-answered" },
                                    "step {step}: caller {j} (key {}, {:?}) is still pending after the fetch tasks ran; it must have been answered with {want:?}", callers[j].key, callers[j].kind
                                );
                            } else if step >= n_user_ops && epilogue_round >= 2 {
                                fail06!("caller-hangs", "end: caller {j} (key {}, {:?}) never resolves although every lookup and fetch has been resolved and the tasks are quiescent", callers[j].key, callers[j].kind);
                            }
                        }
                    }
                }
                // ordering clause: which harness futures have been polled
                for i in 0..callers.len() {
                    let dp = callers[i].disk.as_ref().unwrap().lock().polled;
                    let op_ = callers[i].origin.as_ref().unwrap().lock().polled;
                    if op_ && origin_polled_step[i].is_none() {
                        origin_polled_step[i] = Some(step);
                    }
                    if dp != m.disk_polled[i] {
                        fail06!("disk-lookup-order", "step {step}: disk lookup of call {i} polled = {dp}, protocol says {}", m.disk_polled[i]);
                    }
                    if op_ != m.origin_polled[i] {
                        fail06!(
                            if op_ { "origin-fetch-ran-unexpectedly" } else { "origin-fetch-did-not-run" },
                            "step {step}: origin fetch of call {i} (key {}) polled = {op_}, protocol says {} (it may run only after the memory lookup missed and the disk lookup missed/failed, and only one per flight)",
                            callers[i].key,
                            m.origin_polled[i]
                        );
                    }
                }
                // single-flight clause (direct): at most one origin fetch executing per key, not counting fetches whose
                // flight was superseded by an explicit insert
                let mut executing: BTreeMap<u64, Vec<usize>> = BTreeMap::new();
                for i in 0..callers.len() {
                    let s = callers[i].origin.as_ref().unwrap().lock();
                    if s.polled && !s.resolved && !s.dropped {
                        let orphan = match (origin_polled_step[i], last_insert_step.get(&callers[i].key)) {
                            (Some(p), Some(ins)) => p < *ins,
                            _ => false,
                        };
                        if !orphan {
                            executing.entry(callers[i].key).or_default().push(i);
                        }
                    }
                }
                for (k, v) in executing {
                    if v.len() > 1 {
                        fail06!("two-origin-fetches-at-once", "step {step}: origin fetches of calls {v:?} for key {k} are executing at the same time");
                    }
                }
                // epilogue driver
                if step + 1 == ops.len() && epilogue_round < 3 {
                    epilogue_round += 1;
                    for i in 0..callers.len() {
                        if disk_vals[i].is_none() && !callers[i].disk.as_ref().unwrap().lock().dropped {
                            ops.push(FOp::DiskResolve { i: idx16(i, callers.len()), res: DiskRes::Miss });
                        }
                    }
                    for i in 0..callers.len() {
                        if origin_vals[i].is_none() && !callers[i].origin.as_ref().unwrap().lock().dropped {
                            ops.push(FOp::FetchResolve { i: idx16(i, callers.len()), ok: true });
                        }
                    }
                    ops.push(FOp::Settle);
                }
            }
        }
        step += 1;
    }
    // final content check over the universe
    for key in 0..4u64 {
        let got = cache.get(&key).map(|e| e.value().id);
        let want = m.resident.get(&key).copied();
        if got != want {
            let late = got.map(|g| is_late(&m, &disk_vals, &origin_vals, g)).unwrap_or(false);
            if late {
                fail11!("late-fetch-replaced-insert", "end: get({key}) returns entry {got:?} produced by a fetch that resolved after an explicit insert had returned; expected {want:?}");
            } else {
                fail06!("cache-content-mismatch", "end: get({key}) returns {got:?}, model expects {want:?}");
            }
        }
    }
    if m.orphan_origins.iter().any(|o| matches!(origin_vals[*o], Some(Ok(_)))) {
        m.flags.late_fetch_after_insert = true;
    }
    drop(callers);
    drop(held);
    drop(held_async);
    drop(rt);
    FetchJudgement { c06, c11, flags: m.flags }
}

/// inverse of midx for the epilogue (pick an i16 that maps back onto index `i`)
fn idx16(i: usize, len: usize) -> u16 {
    // smallest x with (x*len)>>16 == i
    let mut x = ((i as u64) << 16).div_ceil(len as u64) as u32;
    while ((x as usize * len) >> 16) < i {
        x += 1;
    }
    x.min(u16::MAX as u32) as u16
}
