//! Entry points shared by the cargo-fuzz targets in /verif/fuzz and by `check` (seed-corpus replay in the quick
//! tier, replay of saved crashing inputs without libFuzzer, campaign driver in the thorough tier).
//!
//! Every target decodes the fuzzer's bytes into structured arguments and applies a *semantic* oracle (round trip,
//! "accepted => verified", splitter geometry) - a target that only waits for crashes would check memory safety, not
//! the listed properties.

use std::{io::Cursor, process::Command};

use foyer_common::code::Code;
use serde::{Deserialize, Serialize};
use serde_json::json;

use crate::{
    c07check::{SplitCase, exec_split},
    c08check::{MutCase, exec_mut, judge_blob_index_bytes, judge_entry_bytes},
    c08shared::{Kv, SerCase, exec_ser},
    common::{Check, Failure, guarded},
};

pub const TARGETS: &[&str] = &["fmt_entry", "fmt_entry_struct", "fmt_blob_index", "code_roundtrip", "ser_roundtrip", "splitter"];

/// Cursor-like decoder for fuzz bytes (hand-written: `derive(Arbitrary)` is not available offline).
struct U<'a> {
    d: &'a [u8],
    p: usize,
}

impl<'a> U<'a> {
    fn new(d: &'a [u8]) -> Self {
        Self { d, p: 0 }
    }
    fn u8(&mut self) -> u8 {
        let v = self.d.get(self.p).copied().unwrap_or(0);
        self.p += 1;
        v
    }
    fn u16(&mut self) -> u16 {
        u16::from_le_bytes([self.u8(), self.u8()])
    }
    fn u32(&mut self) -> u32 {
        u32::from_le_bytes([self.u8(), self.u8(), self.u8(), self.u8()])
    }
    fn u64(&mut self) -> u64 {
        ((self.u32() as u64) << 32) | self.u32() as u64
    }
    fn rest(&mut self) -> &'a [u8] {
        let r = if self.p < self.d.len() { &self.d[self.p..] } else { &[] };
        self.p = self.d.len();
        r
    }
    fn exhausted(&self) -> bool {
        self.p >= self.d.len()
    }
    /// payload: either the following bytes verbatim or a generated run / pseudo-random block of a given length
    fn payload(&mut self, max: usize) -> Vec<u8> {
        match self.u8() % 4 {
            0 => {
                let n = (self.u16() as usize) % (max + 1);
                let b = self.u8();
                vec![b; n]
            }
            1 => {
                let n = (self.u16() as usize) % (max + 1);
                let mut x = self.u64() | 1;
                (0..n)
                    .map(|_| {
                        x ^= x << 13;
                        x ^= x >> 7;
                        x ^= x << 17;
                        x as u8
                    })
                    .collect()
            }
            2 => {
                // page-boundary lengths
                let pages = 1 + (self.u8() as usize % 4);
                let delta = self.u8() as usize % 80;
                let n = (pages * 4096).saturating_sub(delta).min(max);
                let b = self.u8();
                (0..n).map(|i| b.wrapping_add(i as u8)).collect()
            }
            _ => {
                let start = self.p.min(self.d.len());
                let n = (self.u8() as usize).min(self.d.len() - start).min(max);
                let start = self.p.min(self.d.len());
                let n = n.min(self.d.len() - start);
                let v = self.d[start..start + n].to_vec();
                self.p = start + n;
                v
            }
        }
    }
}

fn first_failure(rep: crate::common::CaseReport) -> Option<Failure> {
    rep.failure
}

macro_rules! code_rt {
    ($t:ty, $data:expr, $name:expr, $eq:expr) => {{
        let mut cur = Cursor::new($data);
        match <$t as Code>::decode(&mut cur) {
            Err(_) => None,
            Ok(x) => {
                let consumed = cur.position() as usize;
                let mut out = vec![];
                match x.encode(&mut out) {
                    Err(e) => Some(Failure::new("fuzz:code:encode-of-decoded-failed", format!("{}: decode accepted {} bytes but encoding the decoded value fails: {e}", $name, consumed))),
                    Ok(()) => {
                        let mut c2 = Cursor::new(&out[..]);
                        match <$t as Code>::decode(&mut c2) {
                            Err(e) => Some(Failure::new("fuzz:code:reencoded-does-not-decode", format!("{}: encode(decode(bytes)) does not decode: {e}", $name))),
                            Ok(y) => {
                                let eq: fn(&$t, &$t) -> bool = $eq;
                                if !eq(&x, &y) {
                                    Some(Failure::new("fuzz:code:roundtrip-differs", format!("{}: decode(encode(x)) != x for x decoded from {} bytes", $name, consumed)))
                                } else if c2.position() as usize != out.len() {
                                    Some(Failure::new("fuzz:code:trailing-bytes", format!("{}: decoding its own encoding leaves {} trailing bytes", $name, out.len() - c2.position() as usize)))
                                } else if x.estimated_size() < out.len() && false {
                                    None
                                } else {
                                    None
                                }
                            }
                        }
                    }
                }
            }
        }
    }};
}

fn code_roundtrip(data: &[u8]) -> Option<Failure> {
    if data.is_empty() {
        return None;
    }
    let sel = data[0] % 18;
    let d = &data[1..];
    match sel {
        0 => code_rt!(u8, d, "u8", |a, b| a == b),
        1 => code_rt!(u16, d, "u16", |a, b| a == b),
        2 => code_rt!(u32, d, "u32", |a, b| a == b),
        3 => code_rt!(u64, d, "u64", |a, b| a == b),
        4 => code_rt!(u128, d, "u128", |a, b| a == b),
        5 => code_rt!(usize, d, "usize", |a, b| a == b),
        6 => code_rt!(i8, d, "i8", |a, b| a == b),
        7 => code_rt!(i16, d, "i16", |a, b| a == b),
        8 => code_rt!(i32, d, "i32", |a, b| a == b),
        9 => code_rt!(i64, d, "i64", |a, b| a == b),
        10 => code_rt!(i128, d, "i128", |a, b| a == b),
        11 => code_rt!(isize, d, "isize", |a, b| a == b),
        12 => code_rt!(f32, d, "f32", |a, b| a.to_bits() == b.to_bits()),
        13 => code_rt!(f64, d, "f64", |a, b| a.to_bits() == b.to_bits()),
        14 => code_rt!(bool, d, "bool", |a, b| a == b),
        15 => code_rt!(String, d, "String", |a, b| a == b),
        16 => code_rt!(Vec<u8>, d, "Vec<u8>", |a, b| a == b),
        _ => code_rt!(bytes::Bytes, d, "Bytes", |a, b| a == b),
    }
}

fn decode_ser_case(u: &mut U) -> SerCase {
    let compression = u.u8() % 3;
    let hash = u.u64();
    let sequence = u.u64();
    let kv = match u.u8() % 5 {
        0 => Kv::U64Bytes(u.u64(), u.payload(17_000)),
        1 => {
            let k = String::from_utf8_lossy(&u.payload(20)).into_owned();
            let v = String::from_utf8_lossy(&u.payload(300)).into_owned();
            Kv::StrStr(k, v)
        }
        2 => Kv::BytesU64(u.payload(300), u.u64()),
        3 => Kv::I128F64([u.u64(), u.u64()], u.u64()),
        _ => {
            let k: String = u.payload(12).iter().map(|b| (b'a' + b % 26) as char).collect();
            Kv::StrBytes(k, u.payload(9000))
        }
    };
    let ncuts = u.u8() % 6;
    let cuts = (0..ncuts).map(|_| u.u16()).collect();
    SerCase { kv, compression, cuts, hash, sequence }
}

fn decode_mut_case(u: &mut U) -> MutCase {
    let base = decode_ser_case(u);
    let n = 1 + u.u8() % 6;
    let edits = (0..n).map(|_| (u.u16(), u.u8().max(1))).collect();
    let truncate = if u.u8() % 5 == 0 { Some(u.u16()) } else { None };
    MutCase { base, edits, truncate }
}

fn decode_split_case(u: &mut U) -> SplitCase {
    let block_pages = match u.u8() % 8 {
        0 | 1 => 4,
        2 | 3 => 8,
        4 => 16,
        5 => 180,
        6 => 360,
        _ => 3 + (u.u8() as usize % 30),
    };
    let index_pages = 1 + (u.u8() as usize % 2);
    let block_pages = block_pages.max(index_pages + 1);
    let max = ((block_pages - index_pages) * 4096) as u32;
    let nb = 1 + u.u8() as usize % 6;
    let mut batches = vec![];
    for _ in 0..nb {
        let mode = u.u8();
        let mut b = vec![];
        if mode % 4 == 0 && block_pages >= 100 {
            // runs that fill a blob index exactly / by one
            let n = [169usize, 170, 171, 340, 341][u.u8() as usize % 5];
            let l = 1 + u.u16() as u32 % 4096;
            b = vec![l; n];
        } else {
            let n = u.u8() as usize % 14;
            for _ in 0..n {
                let l = match u.u8() % 6 {
                    0 => 1,
                    1 => 4096,
                    2 => 4097,
                    3 => max,
                    4 => 1 + u.u32() % max,
                    _ => 1 + u.u16() as u32 % 4096,
                };
                b.push(l.min(max).max(1));
            }
        }
        batches.push(b);
        if u.exhausted() {
            break;
        }
    }
    SplitCase { block_pages, index_pages, batches }
}

/// Run one input through the oracle of `target`. None = the property held on this input.
pub fn run(target: &str, data: &[u8]) -> Option<Failure> {
    match target {
        "fmt_entry" => match judge_entry_bytes(data) {
            Ok(_) => None,
            Err(f) => Some(f),
        },
        "fmt_entry_struct" => {
            let mut u = U::new(data);
            let case = decode_mut_case(&mut u);
            first_failure(exec_mut(&case))
        }
        "fmt_blob_index" => {
            // whole pages only (the reader's precondition: its callers always pass the configured index size)
            let n = (data.len() / 4096).clamp(1, 4) * 4096;
            let mut page = vec![0u8; n];
            let m = data.len().min(n);
            page[..m].copy_from_slice(&data[..m]);
            match judge_blob_index_bytes(&page) {
                Ok(_) => None,
                Err(f) => Some(f),
            }
        }
        "code_roundtrip" => code_roundtrip(data),
        "ser_roundtrip" => {
            let mut u = U::new(data);
            let case = decode_ser_case(&mut u);
            first_failure(exec_ser(&case))
        }
        "splitter" => {
            let mut u = U::new(data);
            let case = decode_split_case(&mut u);
            let _ = u.rest();
            first_failure(exec_split(&case))
        }
        _ => Some(Failure::new("harness-panic", format!("unknown fuzz target {target}"))),
    }
}

/// Same, with panics inside foyer turned into failures (used by `check`; the fuzz targets let panics propagate so
/// that libFuzzer records the input).
pub fn run_guarded(target: &str, data: &[u8]) -> Option<Failure> {
    match guarded(|| run(target, data)) {
        Ok(r) => r,
        Err(f) => Some(Failure::new(format!("fuzz:{target}:{}", f.signature), f.message)),
    }
}

#[derive(Clone, Debug, Serialize, Deserialize)]
pub struct FuzzInput {
    pub target: String,
    pub input_hex: String,
}

pub fn hex(d: &[u8]) -> String {
    d.iter().map(|b| format!("{b:02x}")).collect()
}

pub fn unhex(s: &str) -> Vec<u8> {
    (0..s.len() / 2).filter_map(|i| u8::from_str_radix(&s[2 * i..2 * i + 2], 16).ok()).collect()
}

pub fn replay(case: &FuzzInput) -> Option<Failure> {
    run_guarded(&case.target, &unhex(&case.input_hex))
}

fn seed_dir(target: &str) -> String {
    format!("{}/fuzz/corpus-seed/{target}", crate::common::VERIF_ROOT)
}

/// Quick tier: every committed seed / regression input of `target` through the oracle, in-process.
pub fn replay_seed_corpus(check: &Check, target: &str) -> u64 {
    let mut n = 0;
    let Ok(rd) = std::fs::read_dir(seed_dir(target)) else { return 0 };
    let mut files: Vec<_> = rd.filter_map(|e| e.ok()).map(|e| e.path()).collect();
    files.sort();
    for p in files {
        let Ok(data) = std::fs::read(&p) else { continue };
        n += 1;
        if let Some(f) = run_guarded(target, &data) {
            let case = FuzzInput { target: target.to_string(), input_hex: hex(&data) };
            if !check.is_known(&f) {
                check.violation(&format!("fuzz-{target}"), &case, &f);
            }
        }
    }
    check.add_extra_count(&format!("fuzz_seed_inputs_replayed/{target}"), n);
    n
}

/// Thorough tier: a coverage-guided libFuzzer campaign (`cargo +nightly fuzz run`) of `runs` executions. A crashing
/// input is re-judged in-process (so the report names the violated clause) and saved as a replay file.
pub fn campaign(check: &Check, target: &str, runs: u64, max_len: usize) {
    let root = crate::common::VERIF_ROOT;
    let corpus = format!("{root}/fuzz/corpus/{target}");
    let artifacts = format!("{root}/fuzz/artifacts/{target}");
    let _ = std::fs::remove_dir_all(&corpus);
    let _ = std::fs::remove_dir_all(&artifacts);
    let _ = std::fs::create_dir_all(&corpus);
    let _ = std::fs::create_dir_all(&artifacts);
    let jobs = check.workers.clamp(1, 16);
    let per_job = (runs / jobs as u64).max(1);
    // build once (cargo-fuzz: nightly, ASan, debug assertions on), then run the target binary in `jobs` processes that
    // share the corpus directory
    let build = Command::new("cargo")
        .current_dir(root)
        .env("CARGO_NET_OFFLINE", "true")
        .args(["+nightly", "fuzz", "build", "--fuzz-dir", &format!("{root}/fuzz"), "--release", target])
        .output();
    match build {
        Ok(o) if o.status.success() => {}
        Ok(o) => {
            let _ = std::fs::write(format!("{root}/out/fuzz_build_{target}.log"), [o.stdout, o.stderr].concat());
            check.stats.inconclusive.lock().unwrap().push(format!("cargo fuzz build {target} failed (see /verif/out/fuzz_build_{target}.log)"));
            return;
        }
        Err(e) => {
            check.stats.inconclusive.lock().unwrap().push(format!("cannot start cargo fuzz build for {target}: {e}"));
            return;
        }
    }
    let bin = format!("{root}/fuzz/target/x86_64-unknown-linux-gnu/release/{target}");
    let mut children = vec![];
    for j in 0..jobs {
        let child = Command::new("sh")
            .current_dir(format!("{root}/fuzz"))
            .arg("-c")
            // the sanitizer runtime reserves terabytes of address space: lift run.sh's (soft) limit for this child
            .arg("ulimit -S -v unlimited 2>/dev/null; exec \"$0\" \"$@\"")
            .arg(&bin)
            // decoders ask the allocator for implausible sizes on purpose (try_reserve) and turn the refusal into an
            // error: the sanitizer must return null for those instead of aborting
            .env("ASAN_OPTIONS", "allocator_may_return_null=1:detect_odr_violation=0:max_allocation_size_mb=512")
            .arg(&corpus)
            .arg(seed_dir(target))
            .arg(format!("-runs={per_job}"))
            .arg(format!("-seed={}", check.seed.wrapping_mul(1000).wrapping_add(j as u64 + 1)))
            .arg(format!("-max_len={max_len}"))
            .arg("-len_control=0")
            .arg("-print_final_stats=1")
            .arg("-reload=1")
            .arg("-rss_limit_mb=4096")
            .arg("-malloc_limit_mb=1024")
            .arg(format!("-artifact_prefix={artifacts}/"))
            .stdout(std::process::Stdio::piped())
            .stderr(std::process::Stdio::piped())
            .spawn();
        match child {
            Ok(c) => children.push(c),
            Err(e) => {
                check.stats.inconclusive.lock().unwrap().push(format!("cannot start fuzz target {target}: {e}"));
                return;
            }
        }
    }
    let mut execs = 0u64;
    let mut cov = 0u64;
    let mut corp = 0u64;
    let mut text = String::new();
    let mut statuses = vec![];
    for c in children {
        let Ok(out) = c.wait_with_output() else { continue };
        statuses.push(out.status.code());
        let t = format!("{}{}", String::from_utf8_lossy(&out.stdout), String::from_utf8_lossy(&out.stderr));
        let mut job_execs = 0u64;
        for l in t.lines() {
            if let Some(r) = l.strip_prefix("stat::number_of_executed_units:") {
                job_execs = r.trim().parse().unwrap_or(0);
            }
            if l.starts_with('#') {
                if let Some(c) = l.split("cov:").nth(1).and_then(|r| r.trim().split_whitespace().next()).and_then(|x| x.parse::<u64>().ok()) {
                    cov = cov.max(c);
                }
                if let Some(c) = l.split("corp:").nth(1).and_then(|r| r.trim().split('/').next()).and_then(|x| x.trim().parse::<u64>().ok()) {
                    corp = corp.max(c);
                }
                if job_execs == 0 {
                    if let Some(n) = l[1..].split_whitespace().next().and_then(|n| n.parse::<u64>().ok()) {
                        job_execs = job_execs.max(n);
                    }
                }
            }
        }
        execs += job_execs;
        // keep the tail of each job's output
        let tail: Vec<&str> = t.lines().rev().take(30).collect();
        for l in tail.into_iter().rev() {
            text.push_str(l);
            text.push('\n');
        }
        text.push_str("-----\n");
    }
    let _ = std::fs::write(format!("{root}/out/fuzz_{target}.log"), &text);
    check.set_extra(
        &format!("fuzz_campaign/{target}"),
        json!({"executions": execs, "edge_coverage": cov, "corpus": corp, "requested_runs": runs, "jobs": jobs, "exit_statuses": statuses}),
    );
    check.stats.evaluations.fetch_add(execs, std::sync::atomic::Ordering::Relaxed);
    // crashing inputs
    let mut crashes = vec![];
    if let Ok(rd) = std::fs::read_dir(&artifacts) {
        for e in rd.filter_map(|e| e.ok()) {
            let name = e.file_name().to_string_lossy().to_string();
            if name.starts_with("crash-") || name.starts_with("oom-") || name.starts_with("timeout-") {
                crashes.push((name, e.path()));
            }
        }
    }
    crashes.sort();
    for (name, path) in crashes {
        let Ok(data) = std::fs::read(&path) else { continue };
        if name.starts_with("crash-") {
            let f = run_guarded(target, &data).unwrap_or_else(|| {
                Failure::new(format!("fuzz:{target}:crash-not-reproduced-in-process"), format!("libFuzzer saved {name} but the oracle holds on it in-process (sanitizer-only finding?)"))
            });
            if f.signature.contains("crash-not-reproduced") {
                check.stats.inconclusive.lock().unwrap().push(f.message);
                continue;
            }
            let case = FuzzInput { target: target.to_string(), input_hex: hex(&data) };
            if !check.is_known(&f) {
                check.violation(&format!("fuzz-{target}"), &case, &f);
                return;
            }
        } else {
            check.stats.inconclusive.lock().unwrap().push(format!("libFuzzer {name} for target {target} (budget, not a verdict)"));
        }
    }
}

/// Golden inputs for the byte-level targets, written from real serialisations (an empty corpus stalls at the magic
/// check). Deterministic; used to (re)generate /verif/fuzz/corpus-seed.
pub fn write_seed_corpus() -> std::io::Result<usize> {
    use foyer_storage::{
        Compression,
        verif::{Checksummer, EntryHeader, EntrySerializer},
    };
    let mut n = 0;
    let mut put = |target: &str, name: String, data: &[u8]| -> std::io::Result<()> {
        let dir = seed_dir(target);
        std::fs::create_dir_all(&dir)?;
        std::fs::write(format!("{dir}/{name}"), data)?;
        n += 1;
        Ok(())
    };
    // fmt_entry: valid entries (u64 key, Vec<u8> value) under the three codecs at several sizes
    for (ci, c) in [Compression::None, Compression::Zstd, Compression::Lz4].into_iter().enumerate() {
        for (si, len) in [0usize, 1, 30, 4096 - 44, 4096, 9000].into_iter().enumerate() {
            let v: Vec<u8> = (0..len).map(|i| (i * 7 + si) as u8).collect();
            let mut payload = vec![];
            let info = EntrySerializer::serialize(&(si as u64 + 1), &v, c, &mut payload).expect("serialize");
            let header = EntryHeader {
                key_len: info.key_len as u32,
                value_len: info.value_len as u32,
                hash: 0x1234_5678_9abc_def0 ^ si as u64,
                sequence: 7 + si as u64,
                checksum: Checksummer::checksum64(&payload),
                compression: c,
            };
            let mut bytes = vec![0u8; 36];
            header.write(&mut bytes[..]);
            bytes.extend_from_slice(&payload);
            put("fmt_entry", format!("entry_c{ci}_s{si}"), &bytes)?;
        }
    }
    // fmt_blob_index: valid one-page indexes with 0, 1, 3, 170 records
    for n_rec in [0usize, 1, 3, 170] {
        let mut page = vec![0u8; 4096];
        for i in 0..n_rec {
            let o = 12 + i * 24;
            page[o..o + 8].copy_from_slice(&(i as u64 + 1).to_be_bytes());
            page[o + 8..o + 16].copy_from_slice(&(100 + i as u64).to_be_bytes());
            page[o + 16..o + 20].copy_from_slice(&((4096 + i * 4096) as u32).to_be_bytes());
            page[o + 20..o + 24].copy_from_slice(&100u32.to_be_bytes());
        }
        page[8..12].copy_from_slice(&(n_rec as u32).to_be_bytes());
        let cs = Checksummer::checksum64(&page[8..]);
        page[0..8].copy_from_slice(&cs.to_be_bytes());
        put("fmt_blob_index", format!("index_{n_rec}"), &page)?;
    }
    // code_roundtrip: selector byte + a valid encoding of each type
    macro_rules! enc {
        ($sel:expr, $v:expr) => {{
            let mut out = vec![$sel as u8];
            $v.encode(&mut out).expect("encode");
            put("code_roundtrip", format!("code_{}", $sel), &out)?;
        }};
    }
    enc!(0, 7u8);
    enc!(1, 300u16);
    enc!(2, 70_000u32);
    enc!(3, u64::MAX - 1);
    enc!(4, u128::MAX / 3);
    enc!(5, 12345usize);
    enc!(6, -7i8);
    enc!(7, -300i16);
    enc!(8, i32::MIN);
    enc!(9, i64::MIN + 1);
    enc!(10, i128::MIN);
    enc!(11, -5isize);
    enc!(12, f32::NAN);
    enc!(13, -0.0f64);
    enc!(14, true);
    enc!(15, "h\u{e9}llo \u{1F600}".to_string());
    enc!(16, vec![1u8, 2, 3, 4, 5]);
    enc!(17, bytes::Bytes::from_static(b"bytes"));
    // structured targets: a few byte strings that decode to interesting cases
    for (i, s) in [&[0u8; 8][..], &[1, 2, 3, 4, 5, 6, 7, 8, 9, 10, 11, 12, 13, 14, 15, 16, 17, 18, 19, 20, 2, 1, 0, 16, 0xff], &[2u8; 64], &[3, 0, 1, 0, 200, 0, 4, 1, 170, 9, 9, 9, 9, 0, 2, 3, 4, 5, 1, 1]].iter().enumerate() {
        put("fmt_entry_struct", format!("s{i}"), s)?;
        put("ser_roundtrip", format!("s{i}"), s)?;
        put("splitter", format!("s{i}"), s)?;
    }
    Ok(n)
}
