//! C12: disk writes happen exactly when policy and placement advice say so.
//!
//! Differential test against a small write-expectation model. The device write log is attributed to (key, version)
//! by the independent format reader; after every operation (immediate io, so each step is quiescent) the set of
//! entries that newly appeared in device data writes must equal the model's.

use std::collections::{BTreeMap, BTreeSet};

use proptest::prelude::*;

use crate::{
    common::{CaseReport, Check, Failure, Tier},
    fmtparse::{WriteKind, classify_write},
    hval::{Decoded, decode_value},
    hybchecks::{CfgDomain, HybCase, cfg_strategy, normalize, split_known},
    hybsim::{HOp, HRet, HTrace, HybCfg, HybSim, KeyClass, Loc, LookupOut, Src, Sz, TaskKind, TaskOut},
    simdev::IoKind,
};

#[derive(Clone, Debug)]
struct Resident {
    version: u64,
    /// may ever go to disk (not advised in-memory-only, not forced in-memory by a throttled lookup)
    writable: bool,
    /// fresh = inserted by the user or fetched from the origin; otherwise loaded from disk
    fresh: bool,
    /// loaded from a block already marked for imminent reclaim
    old: bool,
}

#[derive(Default)]
pub struct C12Flags {
    pub hit_on_disk_entry: bool,
    pub close_with_inmem_resident: bool,
    pub eviction_of_disk_loaded: bool,
    pub eviction_of_old: bool,
    pub throttled_fetch: bool,
    pub admission_rejected: bool,
    pub writes: usize,
    pub disk_only_held: bool,
}

/// (key, version) of every entry in data writes issued at log positions [from, to) of `generation`
fn written_between(cfg: &HybCfg, trace: &HTrace, generation: u32, from: usize, to: usize) -> Vec<(u64, u64)> {
    let tomb = if cfg.tombstone { Some(0usize) } else { None };
    let mut out = vec![];
    for (i, (_, rec)) in trace.log.iter().filter(|(g, _)| *g == generation).enumerate() {
        if i < from || i >= to || rec.kind != IoKind::Write {
            continue;
        }
        let Some(data) = &rec.data else { continue };
        if let WriteKind::Data(entries) = classify_write(rec.part, rec.offset, data, cfg.blob_index_size, tomb) {
            for e in entries {
                if let (Some(k), Some(v)) = (e.key, e.value.as_ref()) {
                    match decode_value(v) {
                        Decoded::Valid { key, version } if key == k => out.push((key, version)),
                        _ => out.push((k, u64::MAX)),
                    }
                }
            }
        }
    }
    out
}

pub fn judge_c12(cfg: &HybCfg, ops: &[HOp], trace: &HTrace) -> (Vec<Failure>, C12Flags) {
    let mut failures = vec![];
    let mut flags = C12Flags::default();
    let mut resident: BTreeMap<u64, Resident> = BTreeMap::new();
    // disk-only entries whose handle is still held: version -> key
    let mut held_disk_only: BTreeMap<u64, u64> = BTreeMap::new();
    let mut on_disk: BTreeSet<u64> = BTreeSet::new(); // keys that have some copy on disk (for NT classification)
    let mut throttled = false;
    let mut prev_log = 0usize;
    let mut prev_gen = 0u32;
    let mut prev_mem = 0u32;
    let rejected = |k: u64| cfg.admission_reject.contains(&(k as u8));
    let max_len = cfg.max_value_len();
    let version_len: BTreeMap<u64, usize> = trace.versions.iter().map(|(v, _, l)| (*v, *l)).collect();
    let fits = |v: u64| version_len.get(&v).map(|l| *l <= max_len).unwrap_or(true);
    let mut closed = false;

    for (i, (op, st)) in ops.iter().zip(trace.steps.iter()).enumerate() {
        let step = i as u64 + 1;
        if st.generation != prev_gen {
            // (reopen handled below through the Reopen op; log restarts)
        }
        let mut expected: BTreeSet<(u64, u64)> = BTreeSet::new();
        let mut allowed_extra: BTreeSet<(u64, u64)> = BTreeSet::new();
        let woi = cfg.write_on_insertion;
        // which resident entries left memory during this step without being removed/replaced by the op itself
        let mut replaced_key: Option<u64> = None;
        let mut removed_key: Option<u64> = None;

        // the copy being replaced by an insert may leave memory either as "replaced" (not written) or as a capacity
        // eviction of the evict-until-it-fits loop (written under write-on-eviction): both are what actually happened
        // (a disk-only insert - OnDisk advice, storage writer - does not run that loop: the copy it displaces can only
        // be "replaced", so nothing extra is allowed for it)
        if let (HOp::Insert { .. }, HRet::Inserted { key, accepted: true, disk_only: false, .. }) = (op, &st.ret) {
            if let Some(r) = resident.get(key) {
                if !woi && !closed && r.writable && (r.fresh || r.old) && !rejected(*key) && fits(r.version) {
                    allowed_extra.insert((*key, r.version));
                }
            }
        }
        match (op, &st.ret) {
            (HOp::Insert { loc, hold, .. }, HRet::Inserted { key, version, mem_only, disk_only, .. }) => {
                replaced_key = Some(*key);
                if closed {
                    // writes after close are ignored
                    resident.insert(*key, Resident { version: *version, writable: !*mem_only, fresh: true, old: false });
                } else if *mem_only {
                    resident.insert(*key, Resident { version: *version, writable: false, fresh: true, old: false });
                } else if *disk_only {
                    let _ = loc;
                    resident.remove(key);
                    if woi {
                        if !rejected(*key) && fits(*version) {
                            expected.insert((*key, *version));
                        }
                    } else if *hold {
                        held_disk_only.insert(*version, *key);
                        flags.disk_only_held = true;
                    } else if !rejected(*key) && fits(*version) {
                        expected.insert((*key, *version));
                    }
                } else {
                    resident.insert(*key, Resident { version: *version, writable: true, fresh: true, old: false });
                    if woi && !rejected(*key) && fits(*version) {
                        expected.insert((*key, *version));
                    }
                }
                if rejected(*key) {
                    flags.admission_rejected = true;
                }
            }
            (HOp::WriterInsert { hold, .. }, HRet::Inserted { key, version, accepted, .. }) => {
                if *accepted {
                    replaced_key = Some(*key);
                    resident.remove(key);
                    if closed {
                    } else if woi {
                        if !rejected(*key) && fits(*version) {
                            expected.insert((*key, *version));
                        }
                    } else if *hold {
                        held_disk_only.insert(*version, *key);
                        flags.disk_only_held = true;
                    } else if !rejected(*key) && fits(*version) {
                        expected.insert((*key, *version));
                    }
                }
            }
            (HOp::DropHandle { .. }, HRet::Dropped(Some((key, version)))) => {
                if held_disk_only.remove(version).is_some() && !woi && !closed && !rejected(*key) && fits(*version) {
                    expected.insert((*key, *version));
                }
            }
            (HOp::Remove { k }, _) => {
                removed_key = Some(*k as u64);
                resident.remove(&(*k as u64));
            }
            (HOp::Throttle { on }, _) => throttled = *on,
            (HOp::Close, _) | (HOp::Reopen, _) => {
                // what close *must* persist is C15's claim; here only what it *may* write (and InMem never)
                if !closed && cfg.flush_on_close && !woi {
                    for (k, r) in &resident {
                        if r.writable && (r.fresh || r.old) && !rejected(*k) && fits(r.version) {
                            allowed_extra.insert((*k, r.version));
                        }
                    }
                }
                if resident.values().any(|r| !r.writable) {
                    flags.close_with_inmem_resident = true;
                }
                closed = true;
                if matches!(op, HOp::Reopen) {
                    resident.clear();
                    held_disk_only.clear();
                    closed = false;
                    throttled = false;
                }
            }
            _ => {}
        }

        // lookups resolved in this step
        for t in &st.resolved {
            let task = &trace.tasks[*t];
            let (key, is_fetch) = match &task.kind {
                TaskKind::Get { k } => (*k, false),
                TaskKind::Fetch { k } => (*k, true),
                _ => continue,
            };
            let Some(TaskOut::Lookup(out)) = &task.out else { continue };
            if let LookupOut::Hit { decoded, source, age, in_mem_advice, .. } = out {
                let version = match decoded {
                    Decoded::Valid { version, .. } => *version,
                    _ => continue,
                };
                match source {
                    Src::Memory => {
                        if on_disk.contains(&key) {
                            flags.hit_on_disk_entry = true;
                        }
                    }
                    Src::Disk => {
                        flags.hit_on_disk_entry = true;
                        resident.insert(key, Resident { version, writable: true, fresh: false, old: *age == 2 });
                    }
                    Src::Outer => {
                        let class_mem_only = cfg.key_class.get(key as usize) == Some(&KeyClass::MemOnly);
                        let forced = *in_mem_advice && !class_mem_only;
                        if forced {
                            flags.throttled_fetch = true;
                        }
                        let writable = !class_mem_only && !*in_mem_advice;
                        resident.insert(key, Resident { version, writable, fresh: true, old: false });
                        if is_fetch && woi && writable && !closed && !rejected(key) && fits(version) {
                            expected.insert((key, version));
                        }
                        let _ = throttled;
                    }
                }
            }
        }

        // capacity / evict_all evictions: keys that left memory in this step and were not removed or replaced by the op
        let gone: Vec<u64> = resident
            .keys()
            .copied()
            .filter(|k| (prev_mem >> k) & 1 == 1 || true)
            .filter(|k| (st.mem_contains >> k) & 1 == 0)
            .collect();
        for k in gone {
            let r = resident.remove(&k).unwrap();
            if Some(k) == removed_key {
                continue;
            }
            if !r.fresh {
                flags.eviction_of_disk_loaded = true;
                if r.old {
                    flags.eviction_of_old = true;
                }
            }
            if !woi && !closed && r.writable && (r.fresh || r.old) && !rejected(k) && fits(r.version) && !matches!(op, HOp::Close | HOp::Reopen) {
                expected.insert((k, r.version));
            }
            let _ = replaced_key;
        }

        // what was actually written in this step
        let (from, to, generation) = if st.generation != prev_gen && !matches!(op, HOp::Reopen) {
            (0, st.log_len, st.generation)
        } else if matches!(op, HOp::Reopen) {
            // close writes belong to the previous generation's log; the new generation starts at 0
            (prev_log, usize::MAX, prev_gen)
        } else {
            (prev_log, st.log_len, st.generation)
        };
        let actual_list = written_between(cfg, trace, generation, from, to);
        flags.writes += actual_list.len();
        let actual: BTreeSet<(u64, u64)> = actual_list.iter().copied().collect();
        for (k, _) in &actual {
            on_disk.insert(*k);
        }
        let missing: Vec<_> = expected.difference(&actual).copied().collect();
        let extra: Vec<_> = actual.difference(&expected).copied().filter(|e| !allowed_extra.contains(e)).collect();
        if !extra.is_empty() {
            let (k, v) = extra[0];
            let kind = match op {
                HOp::Get { .. } | HOp::Fetch { .. } => "write-on-lookup",
                HOp::Insert { .. } | HOp::WriterInsert { .. } => {
                    if cfg.key_class.get(k as usize) == Some(&KeyClass::MemOnly) {
                        "in-memory-only-entry-written"
                    } else if woi {
                        "unexpected-write-on-insert"
                    } else {
                        "write-on-insert-under-write-on-eviction"
                    }
                }
                HOp::MemEvictAll => {
                    if woi {
                        "eviction-write-under-write-on-insertion"
                    } else {
                        "unexpected-eviction-write"
                    }
                }
                HOp::Close | HOp::Reopen => "unexpected-write-at-close",
                _ => "unexpected-write",
            };
            let memonly = cfg.key_class.get(k as usize) == Some(&KeyClass::MemOnly);
            failures.push(Failure::new(
                if memonly { format!("{kind}+mem-only-key") } else { kind.to_string() },
                format!("step {step} ({op:?}): entry (key {k}, version {v}) was written to the device, the policy/advice model expects writes {expected:?}"),
            ));
        }
        if !missing.is_empty() {
            let (k, v) = missing[0];
            let kind = match op {
                HOp::Close | HOp::Reopen => "resident-entry-not-written-at-close",
                HOp::DropHandle { .. } => "disk-only-entry-not-written-at-drop",
                HOp::Insert { .. } | HOp::WriterInsert { .. } | HOp::Fetch { .. } | HOp::Get { .. } if woi => "admitted-entry-not-written-on-insertion",
                _ => "evicted-entry-not-written",
            };
            failures.push(Failure::new(
                kind,
                format!("step {step} ({op:?}): entry (key {k}, version {v}) should have been written to the device by now (policy {}), device writes of this step: {actual:?}", if woi { "write-on-insertion" } else { "write-on-eviction" }),
            ));
        }
        if matches!(op, HOp::Reopen) {
            prev_log = st.log_len;
        } else {
            prev_log = st.log_len;
        }
        prev_gen = st.generation;
        prev_mem = st.mem_contains;
        if st.hang.is_some() {
            break;
        }
    }
    (failures, flags)
}

fn c12_op() -> impl Strategy<Value = HOp> {
    let k = 0u8..6;
    let sz = prop_oneof![
        4 => any::<u16>().prop_map(Sz::Small),
        3 => (1u8..=2, -1i8..=1).prop_map(|(pages, delta)| Sz::PageEdge { pages, delta }),
    ];
    prop_oneof![
        10 => (k.clone(), sz.clone(), prop::bool::weighted(0.2), prop::bool::weighted(0.15)).prop_map(|(k, sz, ondisk, hold)| HOp::Insert {
            k,
            sz,
            loc: if ondisk { Loc::OnDisk } else { Loc::Default },
            hold,
            compressible: false
        }),
        2 => (k.clone(), sz.clone(), any::<bool>(), prop::bool::weighted(0.4)).prop_map(|(k, sz, force, hold)| HOp::WriterInsert { k, sz, force, hold }),
        2 => k.clone().prop_map(|k| HOp::Remove { k }),
        8 => k.clone().prop_map(|k| HOp::Get { k }),
        5 => (k.clone(), sz).prop_map(|(k, sz)| HOp::Fetch { k, sz }),
        4 => Just(HOp::MemEvictAll),
        3 => any::<u16>().prop_map(|h| HOp::DropHandle { h }),
        1 => any::<bool>().prop_map(|on| HOp::Throttle { on }),
        1 => Just(HOp::Close),
        1 => Just(HOp::Reopen),
    ]
}

pub fn c12_case(max_len: usize) -> impl Strategy<Value = HybCase> {
    (
        cfg_strategy(CfgDomain { max_blocks: 12, ..Default::default() }),
        prop::collection::vec(c12_op(), 1..=max_len),
        prop_oneof![3 => Just(vec![]), 1 => Just(vec![1u8]), 1 => Just(vec![0u8, 2])],
        prop_oneof![Just(10u8), Just(50), Just(100)],
        10usize..=12,
    )
        .prop_map(|(mut cfg, ops, reject, probation, blocks)| {
            cfg.hold_io = false;
            cfg.admission_reject = reject;
            cfg.probation_pct = probation;
            if probation > 10 {
                cfg.blocks = blocks;
                cfg.block_size = 16 * 1024;
                cfg.buffer_pool_size = cfg.flushers * 48 * cfg.block_size;
                cfg.invalid_ratio_picker = false;
            }
            HybCase { cfg, ops }
        })
}

/// Histories that fill a small device so that blocks are reclaimed and marked for imminent reclaim (age Old).
pub fn c12_case_wrapping(max_len: usize) -> impl Strategy<Value = HybCase> {
    let k = 0u8..6;
    let op = prop_oneof![
        10 => (k.clone(), 2u8..=3, any::<bool>()).prop_map(|(k, pages, c)| HOp::Insert { k, sz: Sz::PageEdge { pages, delta: -1 }, loc: Loc::Default, hold: false, compressible: c }),
        6 => k.clone().prop_map(|k| HOp::Get { k }),
        3 => (k.clone(), 1u8..=2).prop_map(|(k, pages)| HOp::Fetch { k, sz: Sz::PageEdge { pages, delta: 0 } }),
        4 => Just(HOp::MemEvictAll),
    ];
    (
        cfg_strategy(CfgDomain::default()),
        prop::collection::vec(op, 20..=max_len),
        prop_oneof![Just(50u8), Just(100)],
        4usize..=6,
    )
        .prop_map(|(mut cfg, ops, probation, blocks)| {
            cfg.hold_io = false;
            // both policies: under write-on-insertion a lookup that loads an Old entry from disk must not write it again
            cfg.probation_pct = probation;
            cfg.blocks = blocks;
            cfg.block_size = 16 * 1024;
            cfg.flushers = 1;
            cfg.clean_block_threshold = 1;
            cfg.buffer_pool_size = 48 * cfg.block_size;
            cfg.invalid_ratio_picker = false;
            cfg.compression = 0;
            cfg.mem_capacity = 9000;
            for c in cfg.key_class.iter_mut() {
                *c = KeyClass::DiskAllowed;
            }
            HybCase { cfg, ops }
        })
}

pub fn exec_c12(case: &HybCase) -> CaseReport {
    let case = &normalize(case);
    let trace = HybSim::run(case.cfg.clone(), &case.ops);
    if std::env::var("VERIF_DUMP").is_ok() {
        eprintln!("{}", serde_json::to_string_pretty(&trace).unwrap());
    }
    let (failures, f) = judge_c12(&case.cfg, &case.ops, &trace);
    let shed = crate::hyboracle::first_shed_step(&case.cfg, &trace).is_some();
    let mut classes: Vec<&'static str> = vec![if case.cfg.write_on_insertion { "write-on-insertion" } else { "write-on-eviction" }];
    macro_rules! cls {
        ($cond:expr, $name:expr) => {
            if $cond {
                classes.push($name);
            }
        };
    }
    cls!(f.hit_on_disk_entry, "hit-on-entry-that-is-on-disk");
    cls!(f.close_with_inmem_resident, "close-with-in-memory-only-resident");
    cls!(f.eviction_of_disk_loaded, "eviction-of-disk-loaded-entry");
    cls!(f.eviction_of_old, "eviction-of-old(probation)-entry");
    cls!(f.throttled_fetch, "throttled-lookup-then-fetch");
    cls!(f.admission_rejected, "admission-filter-rejects");
    cls!(f.disk_only_held, "disk-only-entry-held");
    cls!(case.cfg.flush_on_close, "flush-on-close");
    cls!(f.writes > 0, "device-writes");
    let nontrivial = f.hit_on_disk_entry || f.close_with_inmem_resident || f.eviction_of_disk_loaded;
    split_known("C12", failures, nontrivial, classes, shed)
}

pub fn check_c12(tier: Tier, seed: u64) -> i32 {
    let mut check = Check::new("C12", "exploration", tier, seed);
    check.rule = "hybsim histories with immediate io (every step quiescent): insert_with_properties (Default / InMem / OnDisk), storage-writer inserts, get, get_or_fetch (memory hit / disk hit / origin), handle drops, memory evict_all and capacity evictions, load throttling, close, reopen; both policies, flush_on_close on/off, admission filter admit-all / reject-some keys, FifoPicker probation 10/50/100 % so that disk-loaded entries are reported both Young and Old. Oracle: the (key, version) set that newly appears in device data writes during each step (attributed by an independent format reader) must equal a write-expectation model of the documented policy: InMem never (incl. close), OnDisk at insert (write-on-insertion) or at last handle drop (write-on-eviction), write-on-insertion writes admitted inserts and origin fetches at once and nothing on eviction, write-on-eviction writes capacity evictions of fresh entries and of disk-loaded entries only if their reported age is Old, hits write nothing, throttled lookup + fetch is memory-only. Non-trivial = a hit on an entry that is also on disk, or a close with resident InMem entries, or an eviction of a disk-loaded entry.".into();
    check.assumptions = vec![
        "values are >= 25 bytes so every written entry is attributable to (key, version); entries larger than the per-entry limit are not generated here (C08)".into(),
        "the Young/Old age of a disk-loaded entry is taken from the entry's own properties (what foyer reports), not predicted".into(),
    ];
    let cases = tier.pick(40_000, 1_000_000);
    let len = tier.pick(20, 40);
    check.run_random("random", cases, || c12_case(len), exec_c12);
    let cases = tier.pick(10_000, 200_000);
    check.run_random("wrapping-device", cases, || c12_case_wrapping(70), exec_c12);
    check.finish()
}
