//! Shared machinery: tiers, seeds, case reports, parallel proptest driver, exhaustive driver, evidence files,
//! known-findings file, replay files, panic capture.

use std::{
    cell::RefCell,
    collections::{BTreeMap, HashSet},
    fmt::Debug,
    hash::{Hash, Hasher},
    panic::{AssertUnwindSafe, catch_unwind},
    path::PathBuf,
    sync::{
        Mutex,
        atomic::{AtomicBool, AtomicU64, Ordering},
    },
    time::Instant,
};

use proptest::{
    strategy::{BoxedStrategy, Strategy},
    test_runner::{Config, FileFailurePersistence, RngSeed, TestCaseError, TestError, TestRunner},
};
use serde::{Serialize, de::DeserializeOwned};
use serde_json::{Value, json};

pub const VERIF_ROOT: &str = "/verif";

/// Where evidence and replay files go: /verif, unless VERIF_OUT_ROOT redirects them (background sweeps that must not
/// touch the committed evidence).
pub fn out_root() -> String {
    std::env::var("VERIF_OUT_ROOT").unwrap_or_else(|_| VERIF_ROOT.to_string())
}

#[derive(Clone, Copy, Debug, PartialEq, Eq)]
pub enum Tier {
    Quick,
    Thorough,
}

impl Tier {
    pub fn name(&self) -> &'static str {
        match self {
            Tier::Quick => "quick",
            Tier::Thorough => "thorough",
        }
    }
    /// pick by tier
    pub fn pick<T>(&self, quick: T, thorough: T) -> T {
        match self {
            Tier::Quick => quick,
            Tier::Thorough => thorough,
        }
    }
}

/// Monotone index mapping: maps a generated u16 onto 0..len so that shrinking the u16 moves towards index 0.
pub fn midx(i: u16, len: usize) -> usize {
    debug_assert!(len > 0);
    ((i as usize) * len) >> 16
}

/// A failure found by an oracle.
#[derive(Clone, Debug, Serialize, serde::Deserialize)]
pub struct Failure {
    /// Structural signature used to match the known-findings file (stable across seeds).
    pub signature: String,
    /// Human readable: violated clause, step index, observed vs permitted.
    pub message: String,
}

impl Failure {
    pub fn new(signature: impl Into<String>, message: impl Into<String>) -> Self {
        Self {
            signature: signature.into(),
            message: message.into(),
        }
    }
}

/// What one executed case reports back.
#[derive(Clone, Debug, Default)]
pub struct CaseReport {
    pub nontrivial: bool,
    /// class labels for the histogram (generator distribution measurement)
    pub classes: Vec<&'static str>,
    /// case was outside the property's domain (e.g. a shedding limit fired); counted, not judged
    pub discarded: bool,
    pub failure: Option<Failure>,
    /// additional known-finding hits that the interpreter tolerated and continued behind
    pub tolerated: Vec<Failure>,
}

impl CaseReport {
    pub fn fail(mut self, f: Failure) -> Self {
        self.failure = Some(f);
        self
    }
}

thread_local! {
    static LAST_PANIC: RefCell<Option<(String, String)>> = const { RefCell::new(None) };
}

/// Install a quiet panic hook that remembers message + location per thread.
pub fn install_panic_hook() {
    std::panic::set_hook(Box::new(|info| {
        let msg = if let Some(s) = info.payload().downcast_ref::<&str>() {
            s.to_string()
        } else if let Some(s) = info.payload().downcast_ref::<String>() {
            s.clone()
        } else {
            "<non-string panic>".to_string()
        };
        let loc = info
            .location()
            .map(|l| format!("{}:{}", l.file(), l.line()))
            .unwrap_or_default();
        if std::env::var("VERIF_VERBOSE_PANIC").is_ok() {
            eprintln!("[panic] {msg} @ {loc}");
        }
        LAST_PANIC.with(|p| *p.borrow_mut() = Some((msg, loc)));
    }));
}

pub fn take_last_panic() -> Option<(String, String)> {
    LAST_PANIC.with(|p| p.borrow_mut().take())
}

/// Run `f`, converting a panic into a Failure. A panic whose location is inside the harness is a harness bug and is
/// tagged `harness-panic` (reported as inconclusive, exit 2, never as a violation).
pub fn guarded<T>(f: impl FnOnce() -> T) -> Result<T, Failure> {
    let _ = take_last_panic();
    match catch_unwind(AssertUnwindSafe(f)) {
        Ok(v) => {
            // A panic on this thread that did not unwind up to here was caught on the way: a foyer task that
            // panicked inside the (single-threaded) runtime surfaces to its caller as a join error / cancelled
            // task. It is a panic inside foyer during a valid history all the same.
            match take_last_panic() {
                None => Ok(v),
                Some((msg, loc)) => {
                    let short: String = msg.chars().take(120).collect();
                    if loc.contains("/verif/") || loc.starts_with("core/src/") {
                        Err(Failure::new("harness-panic", format!("harness panic (caught on the way): {msg} @ {loc}")))
                    } else {
                        let file = loc.rsplit('/').next().unwrap_or("").split(':').next().unwrap_or("").to_string();
                        Err(Failure::new(
                            format!("panic@{file}"),
                            format!("panic inside foyer during a valid history (caught by the runtime, surfaced to the caller as an error): {short} @ {loc}"),
                        ))
                    }
                }
            }
        }
        Err(_) => {
            let (msg, loc) = take_last_panic().unwrap_or_default();
            let short: String = msg.chars().take(120).collect();
            if loc.contains("/verif/") || loc.starts_with("core/src/") {
                Err(Failure::new("harness-panic", format!("harness panic: {msg} @ {loc}")))
            } else {
                let file = loc.rsplit('/').next().unwrap_or("").split(':').next().unwrap_or("").to_string();
                Err(Failure::new(
                    format!("panic@{file}"),
                    format!("panic inside foyer during a valid history: {short} @ {loc}"),
                ))
            }
        }
    }
}

/// One line of /verif/known-findings.txt.
#[derive(Clone, Debug)]
pub struct KnownFinding {
    pub property: String,
    pub signature: String,
    pub text: String,
}

#[derive(Clone, Debug, Default)]
pub struct KnownFindings {
    pub open: Vec<KnownFinding>,
}

impl KnownFindings {
    /// Format (one per line):
    ///   known: property=C03 signature=<sig> <free text>
    ///   fixed: property=C05 <commit> <free text>        (suppresses nothing)
    pub fn load() -> Self {
        let path = format!("{VERIF_ROOT}/known-findings.txt");
        let mut open = vec![];
        if let Ok(s) = std::fs::read_to_string(path) {
            for line in s.lines() {
                let line = line.trim();
                if let Some(rest) = line.strip_prefix("known:") {
                    let mut property = String::new();
                    let mut signature = String::new();
                    let mut text = vec![];
                    for tok in rest.split_whitespace() {
                        if let Some(p) = tok.strip_prefix("property=") {
                            property = p.to_string();
                        } else if let Some(s) = tok.strip_prefix("signature=") {
                            signature = s.to_string();
                        } else {
                            text.push(tok);
                        }
                    }
                    if !property.is_empty() && !signature.is_empty() {
                        open.push(KnownFinding {
                            property,
                            signature,
                            text: text.join(" "),
                        });
                    }
                }
            }
        }
        Self { open }
    }

    pub fn matches(&self, property: &str, signature: &str) -> Option<&KnownFinding> {
        self.open
            .iter()
            .find(|k| k.property == property && k.signature == signature)
    }
}

pub struct Check {
    pub property: &'static str,
    pub level: &'static str,
    pub tier: Tier,
    pub seed: u64,
    pub start: Instant,
    pub known: KnownFindings,
    pub stats: Stats,
    pub rule: String,
    pub assumptions: Vec<String>,
    pub exhaustive: bool,
    pub extra: Mutex<BTreeMap<String, Value>>,
    pub workers: usize,
    /// proptest shrink budget (expensive cases: lower it)
    pub max_shrink_iters: u32,
}

#[derive(Default)]
pub struct Stats {
    pub evaluations: AtomicU64,
    pub discarded: AtomicU64,
    pub nontrivial: Mutex<HashSet<u64>>,
    pub classes: Mutex<BTreeMap<String, u64>>,
    pub samples: Mutex<Vec<Value>>,
    pub known_hits: Mutex<BTreeMap<String, u64>>,
    pub violations: Mutex<Vec<(String, String, String)>>, // (signature, message, replay path)
    pub inconclusive: Mutex<Vec<String>>,
}

pub fn fingerprint<T: Debug>(t: &T) -> u64 {
    let mut h = std::collections::hash_map::DefaultHasher::new();
    format!("{t:?}").hash(&mut h);
    h.finish()
}

#[derive(Serialize, serde::Deserialize)]
pub struct ReplayFile {
    pub property: String,
    pub sub: String,
    pub signature: String,
    pub message: String,
    pub case: Value,
}

impl Check {
    pub fn new(property: &'static str, level: &'static str, tier: Tier, seed: u64) -> Self {
        let workers = std::env::var("VERIF_WORKERS")
            .ok()
            .and_then(|s| s.parse().ok())
            .unwrap_or_else(|| std::thread::available_parallelism().map(|n| n.get()).unwrap_or(8).min(16));
        Self {
            property,
            level,
            tier,
            seed,
            start: Instant::now(),
            known: KnownFindings::load(),
            stats: Stats::default(),
            rule: String::new(),
            assumptions: vec![],
            exhaustive: false,
            extra: Mutex::new(BTreeMap::new()),
            workers,
            max_shrink_iters: 4000,
        }
    }

    pub fn set_extra(&self, k: &str, v: Value) {
        self.extra.lock().unwrap().insert(k.to_string(), v);
    }

    pub fn add_extra_count(&self, k: &str, n: u64) {
        let mut e = self.extra.lock().unwrap();
        let cur = e.get(k).and_then(|v| v.as_u64()).unwrap_or(0);
        e.insert(k.to_string(), json!(cur + n));
    }

    /// Record the outcome of a case (not during shrinking). Returns Some(failure) if it is a *new* violation.
    pub fn record<C: Debug + Serialize>(&self, sub: &str, case: &C, rep: &CaseReport) -> Option<Failure> {
        self.stats.evaluations.fetch_add(1, Ordering::Relaxed);
        if rep.discarded {
            self.stats.discarded.fetch_add(1, Ordering::Relaxed);
        }
        {
            let mut classes = self.stats.classes.lock().unwrap();
            for c in &rep.classes {
                *classes.entry(format!("{sub}/{c}")).or_default() += 1;
            }
        }
        if rep.nontrivial && !rep.discarded {
            let fp = fingerprint(&(sub, case));
            let mut nt = self.stats.nontrivial.lock().unwrap();
            let newly = nt.insert(fp);
            let n = nt.len();
            drop(nt);
            if newly && (n <= 2 || (n % 97 == 0)) {
                let mut samples = self.stats.samples.lock().unwrap();
                if samples.len() < 6 {
                    samples.push(json!({"sub": sub, "case": serde_json::to_value(case).unwrap_or(Value::Null)}));
                }
            }
        }
        for t in &rep.tolerated {
            self.note_known(t);
        }
        match &rep.failure {
            None => None,
            Some(f) => {
                if f.signature == "harness-panic" {
                    self.stats.inconclusive.lock().unwrap().push(f.message.clone());
                    return None;
                }
                if self.known.matches(self.property, &f.signature).is_some() {
                    self.note_known(f);
                    None
                } else {
                    Some(f.clone())
                }
            }
        }
    }

    fn note_known(&self, f: &Failure) {
        let mut hits = self.stats.known_hits.lock().unwrap();
        *hits.entry(f.signature.clone()).or_default() += 1;
    }

    pub fn is_known(&self, f: &Failure) -> bool {
        self.known.matches(self.property, &f.signature).is_some()
    }

    /// Save a violation: writes the replay file and remembers it.
    pub fn violation<C: Serialize>(&self, sub: &str, case: &C, f: &Failure) {
        let dir = PathBuf::from(format!("{}/out/replays", out_root()));
        let _ = std::fs::create_dir_all(&dir);
        let mut h = std::collections::hash_map::DefaultHasher::new();
        f.signature.hash(&mut h);
        sub.hash(&mut h);
        let path = dir.join(format!(
            "{}_{}_{:08x}_s{}.json",
            self.property,
            sub,
            h.finish() as u32,
            self.seed
        ));
        let rf = ReplayFile {
            property: self.property.to_string(),
            sub: sub.to_string(),
            signature: f.signature.clone(),
            message: f.message.clone(),
            case: serde_json::to_value(case).unwrap_or(Value::Null),
        };
        let _ = std::fs::write(&path, serde_json::to_string_pretty(&rf).unwrap());
        self.stats.violations.lock().unwrap().push((
            f.signature.clone(),
            f.message.clone(),
            path.to_string_lossy().to_string(),
        ));
    }

    /// Random search with proptest over `workers` threads. `cases` is the total number of cases.
    /// Each worker has its own TestRunner seeded from (seed, sub, worker). The first failure is shrunk by proptest
    /// and saved; all workers stop once any of them has failed.
    pub fn run_random<C, S>(&self, sub: &str, cases: u32, strategy: impl Fn() -> S + Sync, exec: impl Fn(&C) -> CaseReport + Sync)
    where
        C: Debug + Clone + Serialize + Send + 'static,
        S: Strategy<Value = C>,
    {
        if !self.stats.violations.lock().unwrap().is_empty() {
            // an earlier part of this check already found a violation: the verdict is settled, and the code under
            // test is known to be broken (later parts may run away on it)
            return;
        }
        let stop = AtomicBool::new(false);
        let workers = self.workers.max(1).min(cases.max(1) as usize);
        let per = cases.div_ceil(workers as u32);
        let found: Mutex<Vec<(usize, C, Failure)>> = Mutex::new(vec![]);
        let mut subh = std::collections::hash_map::DefaultHasher::new();
        sub.hash(&mut subh);
        self.property.hash(&mut subh);
        let subseed = subh.finish();
        std::thread::scope(|scope| {
            for w in 0..workers {
                let stop = &stop;
                let found = &found;
                let strategy = &strategy;
                let exec = &exec;
                let builder = std::thread::Builder::new().stack_size(16 << 20);
                builder
                    .spawn_scoped(scope, move || {
                        let seed = self
                            .seed
                            .wrapping_mul(0x9E37_79B9_7F4A_7C15)
                            .wrapping_add(subseed)
                            .wrapping_add(w as u64 * 0x1000_0001);
                        let mut config = Config::default();
                        config.cases = per;
                        config.rng_seed = RngSeed::Fixed(seed);
                        config.failure_persistence = None::<Box<FileFailurePersistence>>.map(|b| b as _);
                        config.max_shrink_iters = self.max_shrink_iters;
                        config.max_global_rejects = 1 << 20;
                        let mut runner = TestRunner::new(config);
                        let failed_here = AtomicBool::new(false);
                        let first: Mutex<Option<(C, Failure)>> = Mutex::new(None);
                        let strat = strategy();
                        let res = runner.run(&strat, |case| {
                            if stop.load(Ordering::Relaxed) && !failed_here.load(Ordering::Relaxed) {
                                return Ok(());
                            }
                            let rep = match guarded(|| exec(&case)) {
                                Ok(r) => r,
                                Err(f) => CaseReport::default().fail(f),
                            };
                            if failed_here.load(Ordering::Relaxed) {
                                // shrinking: do not count; only judge
                                return match &rep.failure {
                                    Some(f) if !self.is_known(f) && f.signature != "harness-panic" => {
                                        Err(TestCaseError::fail(f.signature.clone()))
                                    }
                                    _ => Ok(()),
                                };
                            }
                            match self.record(sub, &case, &rep) {
                                None => Ok(()),
                                Some(f) => {
                                    *first.lock().unwrap() = Some((case.clone(), f.clone()));
                                    failed_here.store(true, Ordering::Relaxed);
                                    stop.store(true, Ordering::Relaxed);
                                    Err(TestCaseError::fail(f.signature))
                                }
                            }
                        });
                        match res {
                            Ok(()) => {}
                            Err(TestError::Fail(_, minimal)) => {
                                let rep = match guarded(|| exec(&minimal)) {
                                    Ok(r) => r,
                                    Err(f) => CaseReport::default().fail(f),
                                };
                                match rep.failure {
                                    Some(f) => found.lock().unwrap().push((w, minimal, f)),
                                    None => {
                                        // not reproducible from the shrunk case (free-running threads): keep the
                                        // case that failed first, with what it observed
                                        let (case0, f0) = first.lock().unwrap().clone().unwrap_or((
                                            minimal.clone(),
                                            Failure::new("unknown", "no first failure recorded"),
                                        ));
                                        let f = Failure::new(
                                            "flaky",
                                            format!("a case failed once (signature={}: {}) but its shrunk form did not fail on re-execution", f0.signature, f0.message),
                                        );
                                        found.lock().unwrap().push((w, case0, f));
                                    }
                                }
                            }
                            Err(TestError::Abort(reason)) => {
                                self.stats
                                    .inconclusive
                                    .lock()
                                    .unwrap()
                                    .push(format!("proptest abort in {sub}: {reason}"));
                            }
                        }
                    })
                    .unwrap();
            }
        });
        let mut found = found.into_inner().unwrap();
        found.sort_by_key(|(w, _, _)| *w);
        if let Some((_, case, f)) = found.into_iter().next() {
            if f.signature == "flaky" {
                self.violation(&format!("{sub}-unreproduced"), &case, &f);
                let v = self.stats.violations.lock().unwrap().pop();
                let path = v.map(|(_, _, p)| p).unwrap_or_default();
                self.stats.inconclusive.lock().unwrap().push(format!("{} (case saved: {path})", f.message));
            } else {
                self.violation(sub, &case, &f);
            }
        }
    }

    /// Bounded-exhaustive search: `total` cases, case `i` produced by `make(i)`; partitioned over workers.
    /// Reports the failing case with the smallest index.
    pub fn run_exhaustive<C>(&self, sub: &str, total: u64, make: impl Fn(u64) -> C + Sync, exec: impl Fn(&C) -> CaseReport + Sync)
    where
        C: Debug + Clone + Serialize + Send + 'static,
    {
        if !self.stats.violations.lock().unwrap().is_empty() {
            return;
        }
        let workers = self.workers.max(1);
        let best: Mutex<Option<(u64, C, Failure)>> = Mutex::new(None);
        let limit = AtomicU64::new(u64::MAX);
        let next = AtomicU64::new(0);
        const CHUNK: u64 = 256;
        std::thread::scope(|scope| {
            for _ in 0..workers {
                let best = &best;
                let limit = &limit;
                let next = &next;
                let make = &make;
                let exec = &exec;
                std::thread::Builder::new()
                    .stack_size(16 << 20)
                    .spawn_scoped(scope, move || {
                        loop {
                            let lo = next.fetch_add(CHUNK, Ordering::Relaxed);
                            if lo >= total || lo >= limit.load(Ordering::Relaxed) {
                                break;
                            }
                            let hi = (lo + CHUNK).min(total);
                            for i in lo..hi {
                                if i >= limit.load(Ordering::Relaxed) {
                                    break;
                                }
                                let case = make(i);
                                let rep = match guarded(|| exec(&case)) {
                                    Ok(r) => r,
                                    Err(f) => CaseReport::default().fail(f),
                                };
                                if let Some(f) = self.record(sub, &case, &rep) {
                                    limit.fetch_min(i, Ordering::Relaxed);
                                    let mut b = best.lock().unwrap();
                                    if b.as_ref().map(|(bi, _, _)| i < *bi).unwrap_or(true) {
                                        *b = Some((i, case, f));
                                    }
                                }
                            }
                        }
                    })
                    .unwrap();
            }
        });
        if let Some((_, case, f)) = best.into_inner().unwrap() {
            self.violation(sub, &case, &f);
        }
    }

    /// Run fixed regression cases (saved replays) through `exec`.
    pub fn run_fixed<C>(&self, sub: &str, cases: &[C], exec: impl Fn(&C) -> CaseReport)
    where
        C: Debug + Clone + Serialize,
    {
        for case in cases {
            let rep = match guarded(|| exec(case)) {
                Ok(r) => r,
                Err(f) => CaseReport::default().fail(f),
            };
            if let Some(f) = self.record(sub, case, &rep) {
                self.violation(sub, case, &f);
            }
        }
    }

    /// Writes evidence, prints KNOWN-FINDING / VIOLATION lines, returns the exit code.
    pub fn finish(self) -> i32 {
        let wall = self.start.elapsed().as_secs_f64();
        let evaluations = self.stats.evaluations.load(Ordering::Relaxed);
        let nontrivial = self.stats.nontrivial.lock().unwrap().len();
        let violations = self.stats.violations.lock().unwrap().clone();
        let known_hits = self.stats.known_hits.lock().unwrap().clone();
        let inconclusive = self.stats.inconclusive.lock().unwrap().clone();
        let classes = self.stats.classes.lock().unwrap().clone();
        let samples = self.stats.samples.lock().unwrap().clone();
        let mut coverage = serde_json::Map::new();
        coverage.insert("evaluations".into(), json!(evaluations));
        coverage.insert("distinct_nontrivial".into(), json!(nontrivial));
        coverage.insert("rule".into(), json!(self.rule));
        coverage.insert("samples".into(), json!(samples));
        coverage.insert("exhaustive".into(), json!(self.exhaustive));
        coverage.insert("discarded_out_of_domain".into(), json!(self.stats.discarded.load(Ordering::Relaxed)));
        coverage.insert("class_histogram".into(), json!(classes));
        coverage.insert("known_findings_hit".into(), json!(known_hits));
        coverage.insert("inconclusive".into(), json!(inconclusive));
        coverage.insert(
            "violation_list".into(),
            json!(violations
                .iter()
                .map(|(s, m, p)| json!({"signature": s, "message": m, "replay": p}))
                .collect::<Vec<_>>()),
        );
        for (k, v) in self.extra.lock().unwrap().iter() {
            coverage.insert(k.clone(), v.clone());
        }
        let ev = json!({
            "property_id": self.property,
            "tier": self.tier.name(),
            "seed": self.seed,
            "level": self.level,
            "coverage": Value::Object(coverage),
            "assumptions": self.assumptions,
            "wall_s": wall,
            "violations": violations.len(),
        });
        let dir = format!("{}/evidence", out_root());
        let _ = std::fs::create_dir_all(&dir);
        let path = format!("{dir}/{}.json", self.property);
        std::fs::write(&path, serde_json::to_string_pretty(&ev).unwrap()).expect("write evidence");

        for (sig, n) in &known_hits {
            let text = self
                .known
                .matches(self.property, sig)
                .map(|k| k.text.clone())
                .unwrap_or_default();
            println!("KNOWN-FINDING: property={} signature={sig} hits={n} {text}", self.property);
        }
        println!(
            "[{}] tier={} seed={} evaluations={} distinct_nontrivial={} discarded={} wall={:.1}s",
            self.property,
            self.tier.name(),
            self.seed,
            evaluations,
            nontrivial,
            self.stats.discarded.load(Ordering::Relaxed),
            wall
        );
        if !violations.is_empty() {
            for (sig, msg, path) in &violations {
                println!("  violation signature={sig}: {msg}");
                println!("VIOLATION property={} replay={path}", self.property);
            }
            return 1;
        }
        if !inconclusive.is_empty() {
            for m in &inconclusive {
                println!("INCONCLUSIVE property={}: {m}", self.property);
            }
            return 2;
        }
        0
    }
}

pub fn load_replay(path: &str) -> anyhow::Result<ReplayFile> {
    let s = std::fs::read_to_string(path)?;
    Ok(serde_json::from_str(&s)?)
}

pub fn case_from<C: DeserializeOwned>(rf: &ReplayFile) -> anyhow::Result<C> {
    Ok(serde_json::from_value(rf.case.clone())?)
}

/// Helper so strategies can be boxed uniformly.
pub fn boxed<S: Strategy + 'static>(s: S) -> BoxedStrategy<S::Value> {
    s.boxed()
}
