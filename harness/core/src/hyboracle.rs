//! Oracles over hybsim traces. C01: no stale / foreign / removed value is ever returned.

use std::collections::BTreeMap;

use crate::{
    common::Failure,
    hval::{Decoded, is_tiny_of},
    hybsim::{HOp, HRet, HTrace, HybCfg, KeyClass, LookupOut, TaskKind, TaskOut},
};

/// A write of key k as the model sees it: its linearization point lies in [lo, hi] (steps).
#[derive(Clone, Debug)]
pub struct WriteEv {
    pub lo: u64,
    pub hi: u64,
    /// None = remove / clear
    pub version: Option<u64>,
    pub len: usize,
    /// a pre-reopen version that recovery may legitimately bring back (documented: no tombstone log / non-flushing close)
    pub resurrect: bool,
}

#[derive(Clone, Debug, Default)]
pub struct C01Flags {
    pub lookups: usize,
    pub hits: usize,
    pub disk_hits: usize,
    pub lookup_with_pending_io: bool,
    pub lookup_after_reopen: bool,
    pub lookup_multi_version: bool,
    pub lookup_removed_key: bool,
    pub shed: bool,
    pub reopen: bool,
    pub oversize_insert: bool,
    pub held_io: bool,
    pub hang: bool,
    pub nontrivial: bool,
    pub fetch_ran: bool,
    pub disk_only_insert: bool,
    pub reclaim: bool,
}

/// Lifetime of the handle returned by a disk-only insert (OnDisk advice / storage writer): such an entry is handed to
/// the disk tier only when its last handle is dropped.
#[derive(Clone, Debug)]
pub struct DiskOnlyInfo {
    pub key: u64,
    pub insert_step: u64,
    /// step at which the handle was dropped (None: never dropped while the cache generation was alive)
    pub drop_step: Option<u64>,
    /// the handle was only dropped by the harness after close() (at reopen): the entry never reached the disk
    pub dropped_after_close: bool,
}

pub struct Timeline {
    pub writes: BTreeMap<u64, Vec<WriteEv>>,
    pub version_info: BTreeMap<u64, (u64, usize)>,
    pub disk_only: BTreeMap<u64, DiskOnlyInfo>,
    /// handles kept from ordinary (memory-resident) inserts: version -> (key, insert step, step of the close/reopen at
    /// which it was still held, if any)
    pub held_at_close: BTreeMap<u64, (u64, u64, u64)>,
    /// steps of lookups per key (a looked-up-and-held entry is unevictable under LRU)
    pub lookup_steps: BTreeMap<u64, Vec<u64>>,
}

/// Could an entry with a value of `len` bytes be refused by the disk tier for its size? Exact without compression;
/// with a compressor an incompressible value grows by a small frame overhead, so lengths just below the limit count.
pub fn may_exceed_entry_limit(cfg: &HybCfg, len: usize) -> bool {
    let margin = if cfg.compression == 0 { 0 } else { 512 + len / 64 };
    len + margin > cfg.max_value_len()
}

/// Build the per-key write timeline from ops + trace (up to `upto` steps).
pub fn timeline(cfg: &HybCfg, ops: &[HOp], trace: &HTrace) -> Timeline {
    let mut writes: BTreeMap<u64, Vec<WriteEv>> = BTreeMap::new();
    let version_info: BTreeMap<u64, (u64, usize)> = trace.versions.iter().map(|(v, k, l)| (*v, (*k, *l))).collect();
    let universe = cfg.universe() as u64;
    // fetches that ran their origin: an insert somewhere between origin poll and resolution
    for t in &trace.tasks {
        if let (TaskKind::Fetch { k }, Some((version, len, polled))) = (&t.kind, t.fetched) {
            writes.entry(*k).or_default().push(WriteEv {
                lo: polled,
                hi: t.resolved_at.unwrap_or(u64::MAX),
                version: Some(version),
                len,
                resurrect: false,
            });
        }
    }
    let mut disk_only: BTreeMap<u64, DiskOnlyInfo> = BTreeMap::new();
    let mut open_handles: BTreeMap<u64, (u64, u64)> = BTreeMap::new();
    let mut held_at_close: BTreeMap<u64, (u64, u64, u64)> = BTreeMap::new();
    let mut lookup_steps: BTreeMap<u64, Vec<u64>> = BTreeMap::new();
    for (i, (op, st)) in ops.iter().zip(trace.steps.iter()).enumerate() {
        let step = i as u64 + 1;
        match (op, &st.ret) {
            (HOp::Insert { hold: true, .. }, HRet::Inserted { key, version, accepted: true, disk_only: false, .. }) => {
                open_handles.insert(*version, (*key, step));
            }
            (_, HRet::Dropped(Some((_, version)))) => {
                open_handles.remove(version);
            }
            (HOp::Get { k }, _) | (HOp::Fetch { k, .. }, _) => lookup_steps.entry(*k as u64).or_default().push(step),
            (HOp::Reopen, _) | (HOp::Close, _) | (HOp::CloseCrashReopen, _) | (HOp::ReopenNoClose, _) => {
                for (v, (k, s)) in std::mem::take(&mut open_handles) {
                    held_at_close.insert(v, (k, s, step));
                }
            }
            _ => {}
        }
        // handle lifetimes of disk-only inserts
        match (op, &st.ret) {
            (HOp::Insert { hold, .. } | HOp::WriterInsert { hold, .. }, HRet::Inserted { key, version, accepted: true, disk_only: true, .. }) => {
                disk_only.insert(
                    *version,
                    DiskOnlyInfo {
                        key: *key,
                        insert_step: step,
                        drop_step: if *hold { None } else { Some(step) },
                        dropped_after_close: false,
                    },
                );
            }
            (_, HRet::Dropped(Some((_, version)))) => {
                if let Some(d) = disk_only.get_mut(version) {
                    d.drop_step = Some(step);
                }
            }
            (HOp::Reopen, _) | (HOp::Close, _) | (HOp::CloseCrashReopen, _) | (HOp::ReopenNoClose, _) => {
                for d in disk_only.values_mut() {
                    if d.drop_step.is_none() {
                        d.drop_step = Some(step);
                        d.dropped_after_close = true;
                    }
                }
            }
            _ => {}
        }
        match (op, &st.ret) {
            (_, HRet::Inserted { key, version, len, accepted: true, .. }) => {
                writes.entry(*key).or_default().push(WriteEv {
                    lo: step,
                    hi: step,
                    version: Some(*version),
                    len: *len,
                    resurrect: false,
                });
            }
            (HOp::Remove { k }, _) => {
                writes.entry(*k as u64).or_default().push(WriteEv {
                    lo: step,
                    hi: step,
                    version: None,
                    len: 0,
                    resurrect: false,
                });
            }
            (HOp::Clear, _) => {
                for k in 0..universe {
                    writes.entry(k).or_default().push(WriteEv {
                        lo: step,
                        hi: step,
                        version: None,
                        len: 0,
                        resurrect: false,
                    });
                }
            }
            (HOp::Reopen | HOp::CloseCrashReopen | HOp::ReopenNoClose, HRet::Reopened(true)) => {
                // What a reopen may legitimately bring back (documented):
                //  * without the tombstone log, recovery re-indexes entries whose delete was only in memory;
                //  * without flush_on_close, the newest versions that only lived in memory are lost, so an older copy
                //    on disk becomes the newest one again.
                // (documented on RecoverMode / with_tombstone_log: "for updatable cache, either the tombstone log or
                //  RecoverMode::None must be enabled to prevent phantom entries after reopen")
                let relax_removed = !cfg.tombstone;
                let relax_all = !cfg.flush_on_close;
                let relax_updated = !cfg.tombstone;
                for k in 0..universe {
                    let evs = writes.entry(k).or_default();
                    // an entry too large for the disk tier is rejected as a whole, which (like a delete) can only be
                    // remembered across restarts by the tombstone log
                    let last_is_remove = evs
                        .iter()
                        .filter(|w| !w.resurrect && w.lo < step)
                        .max_by_key(|w| w.lo)
                        .map(|w| w.version.is_none() || may_exceed_entry_limit(cfg, w.len))
                        .unwrap_or(false);
                    let updated = evs.iter().filter(|w| !w.resurrect && w.lo < step).count() >= 2;
                    // a get_or_fetch that had not resolved when close() was called inserts its value concurrently with
                    // (or after) the flush of close: that value is not "what memory held at close" and need not be
                    // persisted, so the copy that was on disk before may be what the reopened cache serves
                    let write_concurrent_with_close = evs.iter().any(|w| !w.resurrect && w.lo <= step && w.hi >= step);
                    if relax_all || (relax_removed && last_is_remove) || (relax_updated && updated) || write_concurrent_with_close {
                        let olds: Vec<(u64, usize)> = evs
                            .iter()
                            .filter(|w| w.lo < step)
                            .filter_map(|w| w.version.map(|v| (v, w.len)))
                            .collect();
                        for (v, len) in olds {
                            evs.push(WriteEv {
                                lo: step,
                                hi: step,
                                version: Some(v),
                                len,
                                resurrect: true,
                            });
                        }
                        if relax_all {
                            // the key may also simply be gone
                            evs.push(WriteEv {
                                lo: step,
                                hi: step,
                                version: None,
                                len: 0,
                                resurrect: true,
                            });
                        }
                    }
                }
            }
            _ => {}
        }
    }
    Timeline {
        writes,
        version_info,
        disk_only,
        held_at_close,
        lookup_steps,
    }
}

impl Timeline {
    /// Is `version` (None = miss is always fine, not asked here) a permitted answer for a lookup of `key` that was
    /// issued at step `a` and resolved at step `b`?
    pub fn permitted(&self, key: u64, version: u64, a: u64, b: u64) -> bool {
        let Some(evs) = self.writes.get(&key) else { return false };
        evs.iter().any(|w| {
            w.version == Some(version)
                && w.lo <= b
                && !evs.iter().any(|o| {
                    // o definitely after w and definitely before the lookup started
                    o.lo > w.hi && o.hi < a && !(o.resurrect && o.version == w.version)
                })
        })
    }

    pub fn permitted_versions(&self, key: u64, a: u64, b: u64) -> Vec<u64> {
        let mut v: Vec<u64> = self
            .writes
            .get(&key)
            .map(|evs| evs.iter().filter_map(|w| w.version).collect())
            .unwrap_or_default();
        v.sort();
        v.dedup();
        v.retain(|x| self.permitted(key, *x, a, b));
        v
    }

    pub fn latest_len_before(&self, key: u64, a: u64) -> Option<usize> {
        self.writes
            .get(&key)?
            .iter()
            .filter(|w| !w.resurrect && w.version.is_some() && w.hi < a)
            .max_by_key(|w| w.lo)
            .map(|w| w.len)
    }

    /// the write that is definitely the latest one before step `a` (what a correct lookup should find)
    pub fn latest_before(&self, key: u64, a: u64) -> Option<&WriteEv> {
        self.writes.get(&key)?.iter().filter(|w| !w.resurrect && w.hi < a).max_by_key(|w| w.lo)
    }

    /// Known design-level finding, keyed structurally: a disk-only insert (OnDisk advice / storage writer) only reaches
    /// the disk tier when its last handle is dropped. From the insert until the first ordinary write of the key *after*
    /// that drop, older copies (write queue, disk, or re-loaded into memory) can be served, and the dropped value can
    /// overtake a newer write or a remove. Returns true if step `a` lies inside such a window for `key`.
    pub fn in_held_disk_only_window(&self, key: u64, a: u64) -> bool {
        self.disk_only.iter().any(|(v, d)| {
            if d.key != key {
                return false;
            }
            let held = d.drop_step.map(|ds| ds > d.insert_step).unwrap_or(true);
            if !held || a <= d.insert_step {
                return false;
            }
            let drop = d.drop_step.unwrap_or(u64::MAX);
            // first resynchronising write after the drop: any other definite write of the key
            let resync = self
                .writes
                .get(&key)
                .and_then(|evs| {
                    evs.iter()
                        .filter(|w| !w.resurrect && w.version != Some(*v) && w.lo == w.hi && w.lo > drop)
                        .map(|w| w.lo)
                        .min()
                })
                .unwrap_or(u64::MAX);
            a <= resync
        })
    }

    /// Known finding (LRU): an entry that was looked up and whose handle is still held at close() is unevictable, so
    /// flush-on-close skips it. True if the latest write of `key` before step `a` is such an entry.
    pub fn lru_pinned_at_close(&self, key: u64, a: u64) -> bool {
        let Some(w) = self.latest_before(key, a) else { return false };
        let Some(v) = w.version else { return false };
        match self.held_at_close.get(&v) {
            Some((_, ins, close)) => {
                *close < a && self.lookup_steps.get(&key).map(|ls| ls.iter().any(|l| *l > *ins && *l < *close)).unwrap_or(false)
            }
            None => false,
        }
    }

    pub fn removed_before(&self, key: u64, a: u64) -> bool {
        self.writes
            .get(&key)
            .and_then(|evs| evs.iter().filter(|w| !w.resurrect && w.hi < a).max_by_key(|w| w.lo))
            .map(|w| w.version.is_none())
            .unwrap_or(false)
    }

    pub fn n_versions_before(&self, key: u64, a: u64) -> usize {
        self.writes
            .get(&key)
            .map(|evs| evs.iter().filter(|w| !w.resurrect && w.version.is_some() && w.lo < a).count())
            .unwrap_or(0)
    }
}

pub struct C01Judgement {
    /// every violated clause, in trace order (the check reports the first one that is not a known finding)
    pub failures: Vec<Failure>,
    pub flags: C01Flags,
}

/// Steps after which nothing is judged (a documented shedding limit fired).
/// The "buffer overflow" counter also counts entries refused for being larger than the per-entry limit (not a
/// shedding limit: that is the documented "rejected as a whole" case). Each oversize version is offered to the flusher
/// at most once, so the counter only indicates real shedding when it exceeds the number of oversize versions created.
pub fn first_shed_step(cfg: &HybCfg, trace: &HTrace) -> Option<usize> {
    let oversize = trace.versions.iter().filter(|(_, _, len)| may_exceed_entry_limit(cfg, *len)).count() as u64;
    trace
        .steps
        .iter()
        .position(|s| s.shed_buffer > oversize * 2 || s.shed_channel > 0)
}

pub fn judge_c01(cfg: &HybCfg, ops: &[HOp], trace: &HTrace) -> C01Judgement {
    let tl = timeline(cfg, ops, trace);
    let mut flags = C01Flags::default();
    let mut failures: Vec<Failure> = vec![];
    let shed_at = first_shed_step(cfg, trace).map(|i| i as u64 + 1);
    flags.shed = shed_at.is_some();
    let any_fail_io = ops.iter().any(|o| matches!(o, HOp::FailIo { .. }));
    let max_len = cfg.max_value_len();
    for op in ops {
        match op {
            HOp::Insert { sz, .. } | HOp::WriterInsert { sz, .. } | HOp::Fetch { sz, .. } => {
                if sz.value_len(cfg) > max_len {
                    flags.oversize_insert = true;
                }
            }
            HOp::HoldIo => flags.held_io = true,
            HOp::Reopen => flags.reopen = true,
            _ => {}
        }
        if let HOp::Insert { loc: crate::hybsim::Loc::OnDisk, .. } | HOp::WriterInsert { .. } = op {
            flags.disk_only_insert = true;
        }
    }
    if cfg.hold_io {
        flags.held_io = true;
    }
    // generation at each step (for "after reopen")
    let gen_at = |step: u64| -> u32 {
        trace
            .steps
            .get(step.saturating_sub(1) as usize)
            .map(|s| s.generation)
            .unwrap_or(0)
    };
    for st in &trace.steps {
        if st.hang.is_some() {
            flags.hang = true;
        }
    }
    for t in &trace.tasks {
        let (key, is_fetch) = match &t.kind {
            TaskKind::Get { k } => (*k, false),
            TaskKind::Fetch { k } => (*k, true),
            _ => continue,
        };
        if is_fetch && t.fetched.is_some() {
            flags.fetch_ran = true;
        }
        if t.resolved_at.is_none() && !flags.hang && !matches!(trace.steps.last().map(|s| &s.ret), Some(HRet::Reopened(false))) {
            // every io has been completed and the runtime is quiescent, yet the lookup never resolved
            failures.push(Failure::new(
                "lookup-never-resolves",
                format!("lookup of key {key} issued at step {} never resolved although all device io completed and no task can make progress", t.issued_at),
            ));
            continue;
        }
        let (Some(b), Some(TaskOut::Lookup(out))) = (t.resolved_at, &t.out) else { continue };
        let a = t.issued_at;
        if let Some(s) = shed_at {
            if b >= s {
                continue;
            }
        }
        flags.lookups += 1;
        let issue_step = trace.steps.get((a - 1) as usize);
        let pending_at_issue = issue_step.map(|s| s.pending > 0).unwrap_or(false);
        let nver = tl.n_versions_before(key, a);
        let removed = tl.removed_before(key, a);
        if nver >= 2 {
            flags.lookup_multi_version = true;
        }
        if removed {
            flags.lookup_removed_key = true;
        }
        if pending_at_issue {
            flags.lookup_with_pending_io = true;
        }
        if gen_at(a) > 0 {
            flags.lookup_after_reopen = true;
        }
        let on_disk_at_issue = issue_step.map(|s| (s.disk_contains >> key) & 1 == 1).unwrap_or(false);
        if (nver >= 2 || removed) && (pending_at_issue || gen_at(a) > 0 || on_disk_at_issue) {
            flags.nontrivial = true;
        }
        match out {
            LookupOut::Miss => {}
            LookupOut::Err(kind) => {
                if !any_fail_io {
                    failures.push(Failure::new(
                        format!("lookup-error:{kind}"),
                        format!("lookup of key {key} issued at step {a} returned error {kind} although no io fault was injected"),
                    ));
                }
            }
            LookupOut::Hit { decoded, len, source, .. } => {
                flags.hits += 1;
                if *source == crate::hybsim::Src::Disk {
                    flags.disk_hits += 1;
                }
                let mut tiny_version: Option<u64> = None;
                let problem: Option<(String, String)> = match decoded {
                    Decoded::Garbage { why } => Some(("garbage-value".into(), format!("returned bytes are not a stored value: {why}"))),
                    Decoded::Valid { key: vk, version } => {
                        if *vk != key {
                            Some(("foreign-value".into(), format!("returned the value of key {vk} (version {version})")))
                        } else if tl.permitted(key, *version, a, b) {
                            None
                        } else {
                            let ever = tl.version_info.get(version).map(|(k, _)| *k == key).unwrap_or(false);
                            if !ever {
                                Some(("never-inserted-version".into(), format!("returned version {version} which was never inserted for key {key}")))
                            } else if removed && tl.permitted_versions(key, a, b).is_empty() {
                                Some(("removed-value-returned".into(), format!("returned version {version} although the key had been removed / cleared before the lookup started")))
                            } else {
                                Some(("stale-version-returned".into(), format!(
                                    "returned version {version}; permitted at that point: {:?}",
                                    tl.permitted_versions(key, a, b)
                                )))
                            }
                        }
                    }
                    Decoded::Tiny { .. } => {
                        // no room for a header: identify the version by length + keyed content among the key's versions
                        let head = match out {
                            LookupOut::Hit { bytes_head, .. } => bytes_head.clone(),
                            _ => vec![],
                        };
                        let matching: Vec<u64> = tl
                            .version_info
                            .iter()
                            .filter(|(v, (k, l))| *k == key && *l == *len && is_tiny_of(&head, key, **v))
                            .map(|(v, _)| *v)
                            .collect();
                        if matching.iter().any(|v| tl.permitted(key, *v, a, b)) {
                            None
                        } else if let Some(v) = matching.last() {
                            tiny_version = Some(*v);
                            Some(("stale-version-returned".to_string(), format!(
                                "returned the {len}-byte value of version {v}; permitted at that point: {:?}",
                                tl.permitted_versions(key, a, b)
                            )))
                        } else {
                            Some(("foreign-or-garbage-tiny-value".to_string(), format!("returned a {len}-byte value that matches no version ever inserted for key {key}")))
                        }
                    }
                };
                if let Some((kind, what)) = problem {
                    // Structural signature. Known design-level findings are keyed by their structural condition only
                    // (independent of where the stale copy came from); everything else by kind@source.
                    let latest_oversize = tl.latest_len_before(key, a).map(|l| may_exceed_entry_limit(cfg, l)).unwrap_or(false);
                    let returned_version = match decoded {
                        Decoded::Valid { key: vk, version } if *vk == key => Some(*version),
                        _ => tiny_version,
                    };
                    let src = match source {
                        crate::hybsim::Src::Memory => "@memory",
                        crate::hybsim::Src::Disk => "@disk",
                        crate::hybsim::Src::Outer => "@outer",
                    };
                    let _ = returned_version;
                    let sig = if tl.in_held_disk_only_window(key, a) {
                        "disk-only-entry-with-held-handle".to_string()
                    } else if cfg.algo.is_lru() && tl.lru_pinned_at_close(key, a) {
                        "lru-pinned-entry-skipped-by-flush-on-close".to_string()
                    } else if returned_version.map(|rv| cleared_then_restarted(ops, &tl, key, rv, a)).unwrap_or(false) {
                        // known finding: clear() does not end the flushers' open blob; the next write rewrites that
                        // blob's index including the entries from before the clear, and a restart recovers them
                        "cleared-entry-back-after-restart".to_string()
                    } else if kind == "stale-version-returned"
                        && returned_version.map(|rv| older_version_written_after_newer(cfg, trace, gen_at(a), key, rv)).unwrap_or(false)
                    {
                        // known finding shared with C09 (see known-findings.txt): the blocks of one multi-block batch reach
                        // the device in arbitrary order
                        "stale-entry-after-reuse+both-versions-in-one-multi-block-batch".to_string()
                    } else if latest_oversize && kind == "stale-version-returned" {
                        "oversize-update-leaves-older-copy".to_string()
                    } else if cfg.key_class.get(key as usize) == Some(&KeyClass::MemOnly) {
                        format!("{kind}{src}+mem-only-key")
                    } else {
                        format!("{kind}{src}")
                    };
                    failures.push(Failure::new(
                        sig,
                        format!(
                            "lookup of key {key} (issued step {a}, resolved step {b}, {} pending device ops at issue, generation {}) {what}",
                            issue_step.map(|s| s.pending).unwrap_or(0),
                            gen_at(a)
                        ),
                    ));
                }
            }
        }
    }
    // contains-after-remove clause (memory part only: the disk index is by hash and may lag by documentation)
    for (i, (op, st)) in ops.iter().zip(trace.steps.iter()).enumerate() {
        let step = i as u64 + 1;
        if let Some(s) = shed_at {
            if step >= s {
                break;
            }
        }
        if let (HOp::Contains { k }, HRet::Contains { mem, .. }) = (op, &st.ret) {
            let key = *k as u64;
            if *mem && tl.removed_before(key, step) && tl.permitted_versions(key, step, step).is_empty() {
                failures.push(Failure::new(
                    if tl.in_held_disk_only_window(key, step) {
                        "disk-only-entry-with-held-handle"
                    } else if tl.version_info.iter().any(|(v, (k, _))| *k == key && cleared_then_restarted(ops, &tl, key, *v, step)) {
                        // an earlier lookup loaded the resurrected entry into memory (same known finding)
                        "cleared-entry-back-after-restart"
                    } else {
                        "memory-contains-removed-key"
                    },
                    format!("step {step}: memory().contains({key}) is true although the key was removed and not inserted again"),
                ));
            }
        }
    }
    if let Some(p) = &trace.panicked {
        failures.push(Failure::new("panic", p.clone()));
    }
    C01Judgement { failures, flags }
}


/// Structural condition of the known finding "stale entry after reuse" (shared with C09): the block write that carries
/// the stale version was unfinished, or not yet issued (waiting for a clean block), when a block write carrying a newer
/// version of the key was issued - only the blocks of one multi-block batch reach the device in such an order (a
/// flusher commits one batch at a time and a key always goes to the same flusher). Read from the device log with the
/// independent format reader.
pub fn older_version_written_after_newer(cfg: &HybCfg, trace: &HTrace, generation: u32, key: u64, stale: u64) -> bool {
    let tomb = if cfg.tombstone { Some(0usize) } else { None };
    // the order of the block writes is judged within one generation (the device's logical clock restarts with it); a
    // stale copy that an earlier generation left on the device is what a later generation recovers
    (0..=generation).any(|gn| older_written_after_newer_in(trace.log.iter().filter(|(g, _)| *g == gn).map(|(_, r)| r), cfg.blob_index_size, tomb, key, stale))
}

/// The same condition over any device log (one generation).
pub fn older_written_after_newer_in<'a>(log: impl Iterator<Item = &'a crate::simdev::LogRec>, index_size: usize, tomb: Option<usize>, key: u64, stale: u64) -> bool {
    use crate::fmtparse::{WriteKind, classify_write};
    let mut of_stale = vec![];
    let mut of_newer = vec![];
    let mut by_seq: Vec<(u64, &crate::simdev::LogRec)> = vec![];
    let log: Vec<&crate::simdev::LogRec> = log.collect();
    // an entry enters the index when the block part it belongs to is complete: data write AND the rewrite of the blob
    // index that follows it on the same block
    let indexed_at = |r: &crate::simdev::LogRec| -> u64 {
        let own = r.completed_clock.unwrap_or(u64::MAX);
        let idx = log
            .iter()
            .filter(|x| x.kind == crate::simdev::IoKind::Write && x.part == r.part && x.issued_clock > r.issued_clock && x.len == index_size)
            .filter(|x| x.data.as_ref().map(|d| matches!(classify_write(x.part, x.offset, d, index_size, tomb), WriteKind::BlobIndex(_))).unwrap_or(false))
            .map(|x| x.completed_clock.unwrap_or(u64::MAX))
            .next()
            .unwrap_or(own);
        own.max(idx)
    };
    for r in log.iter().copied() {
        if r.kind != crate::simdev::IoKind::Write {
            continue;
        }
        let Some(data) = r.data.as_ref() else { continue };
        if let WriteKind::Data(entries) = classify_write(r.part, r.offset, data, index_size, tomb) {
            for e in entries {
                if e.key != Some(key) {
                    continue;
                }
                by_seq.push((e.sequence, r));
                if let Some(v) = e.value.as_ref() {
                    if let Decoded::Valid { key: k2, version } = crate::hval::decode_value(v) {
                        if k2 == key && version == stale {
                            of_stale.push(r);
                        } else if k2 == key && version > stale {
                            of_newer.push(r);
                        }
                    }
                }
            }
        }
    }
    if std::env::var("VERIF_DEBUG_SEQ").is_ok() {
        for (sq, r) in &by_seq {
            eprintln!("key {key} seq {sq}: write #{} part {} off {} issued {} done {:?}", r.seq, r.part, r.offset, r.issued_clock, r.completed_clock);
        }
    }
    if of_stale.is_empty() {
        // values too small to carry their version (0..24 bytes) cannot be told apart by content: fall back to the entry
        // sequences - some block write carrying an entry of this key was unfinished when a block write carrying an
        // entry of the key with a higher sequence was issued
        return by_seq.iter().any(|(sa, a)| by_seq.iter().any(|(sb, b)| sb > sa && indexed_at(a) > b.issued_clock));
    }
    of_stale.iter().any(|a| of_newer.iter().any(|b| indexed_at(a) > b.issued_clock))
}

/// Structural condition of the known finding "cleared entry back after restart": the returned version was written
/// before a clear() of the cache, that clear is the last thing that happened to the key before the lookup, and the
/// cache was reopened between the clear and the lookup.
pub fn cleared_then_restarted(ops: &[HOp], tl: &Timeline, key: u64, version: u64, a: u64) -> bool {
    let Some(evs) = tl.writes.get(&key) else { return false };
    let Some(w) = evs.iter().find(|w| !w.resurrect && w.version == Some(version)) else { return false };
    // last clear before the lookup that follows the write of that version
    let clear = ops
        .iter()
        .enumerate()
        .map(|(i, o)| (i as u64 + 1, o))
        .filter(|(s, o)| matches!(o, HOp::Clear) && *s > w.hi && *s < a)
        .map(|(s, _)| s)
        .max();
    let Some(c) = clear else { return false };
    let restarted = ops
        .iter()
        .enumerate()
        .any(|(i, o)| matches!(o, HOp::Reopen | HOp::ReopenNoClose | HOp::CloseCrashReopen) && (i as u64 + 1) > c && (i as u64 + 1) < a);
    // nothing definite happened to the key after the clear
    let later = evs.iter().any(|o| !o.resurrect && o.lo > c && o.hi < a);
    restarted && !later
}
