//! Simulated device + io engine for the hybrid cache (hybsim).
//!
//! `SimDisk` is the persistent image (one `Vec<u8>` per partition, in creation order) plus an ordered log of every
//! read / write and a table of *pending* operations. In `hold` mode an io is registered as pending and its future
//! resolves only when the harness completes it (in any order, optionally failing it); a crash image is the current
//! image plus chosen page-subsets of pending writes. Everything is deterministic: no threads, no clock.

use std::{
    any::Any,
    collections::BTreeMap,
    sync::Arc,
};

use foyer::{Device, IoEngine, IoEngineConfig, IoHandle, RawFile, Statistics, Throttle};
use foyer_storage::verif::{IoB, IoBuf, IoBufMut, IoEngineBuildContext, PAGE, Partition, PartitionId};
use futures_util::{FutureExt, future::BoxFuture};
use mixtrics::metrics::{
    BoxedCounter, BoxedCounterVec, BoxedGauge, BoxedGaugeVec, BoxedHistogram, BoxedHistogramVec, CounterOps, CounterVecOps,
    GaugeOps, GaugeVecOps, HistogramOps, HistogramVecOps, RegistryOps,
};
use parking_lot::Mutex;
use tokio::sync::oneshot;

#[derive(Clone, Copy, Debug, PartialEq, Eq, serde::Serialize)]
pub enum IoKind {
    Read,
    Write,
}

#[derive(Clone, Debug, serde::Serialize)]
pub struct LogRec {
    pub seq: u64,
    pub kind: IoKind,
    pub part: usize,
    pub offset: usize,
    pub len: usize,
    /// harness step at which the io was issued / completed (completed == None: still pending or lost)
    pub issued_at: u64,
    pub completed_at: Option<u64>,
    /// global completion counter value when the io completed (total order of completions)
    pub completed_order: Option<u64>,
    /// one logical clock for issues and completions: A is in flight when B is issued iff
    /// A.issued_clock < B.issued_clock and (A.completed_clock is None or > B.issued_clock)
    pub issued_clock: u64,
    pub completed_clock: Option<u64>,
    pub failed: bool,
    /// write payload (kept for attribution and for tear simulation)
    #[serde(skip)]
    pub data: Option<Arc<Vec<u8>>>,
}

enum Completion {
    Ok(Option<Vec<u8>>),
    Fail,
}

struct Pending {
    seq: u64,
    kind: IoKind,
    part: usize,
    offset: usize,
    len: usize,
    data: Option<Arc<Vec<u8>>>,
    tx: oneshot::Sender<Completion>,
}

#[derive(Default)]
struct DiskInner {
    parts: Vec<Vec<u8>>,
    log: Vec<LogRec>,
    pending: Vec<Pending>,
    hold: bool,
    next_seq: u64,
    step: u64,
    progress: u64,
    completions: u64,
    clock: u64,
    /// fail every io issued from now on (C03/C09 error paths)
    fail_all: bool,
}

#[derive(Clone, Default)]
pub struct SimDisk {
    inner: Arc<Mutex<DiskInner>>,
}

impl std::fmt::Debug for SimDisk {
    fn fmt(&self, f: &mut std::fmt::Formatter<'_>) -> std::fmt::Result {
        write!(f, "SimDisk")
    }
}

#[derive(Clone, Debug)]
pub struct PendingInfo {
    pub seq: u64,
    pub kind: IoKind,
    pub part: usize,
    pub offset: usize,
    pub len: usize,
}

impl SimDisk {
    pub fn new() -> Self {
        Self::default()
    }

    pub fn from_image(parts: Vec<Vec<u8>>) -> Self {
        let d = Self::default();
        d.inner.lock().parts = parts;
        d
    }

    pub fn image(&self) -> Vec<Vec<u8>> {
        self.inner.lock().parts.clone()
    }

    pub fn set_hold(&self, hold: bool) {
        self.inner.lock().hold = hold;
    }

    pub fn is_hold(&self) -> bool {
        self.inner.lock().hold
    }

    pub fn set_fail_all(&self, fail: bool) {
        self.inner.lock().fail_all = fail;
    }

    pub fn set_step(&self, step: u64) {
        self.inner.lock().step = step;
    }

    pub fn progress(&self) -> u64 {
        self.inner.lock().progress
    }

    pub fn pending(&self) -> Vec<PendingInfo> {
        self.inner
            .lock()
            .pending
            .iter()
            .map(|p| PendingInfo {
                seq: p.seq,
                kind: p.kind,
                part: p.part,
                offset: p.offset,
                len: p.len,
            })
            .collect()
    }

    pub fn pending_len(&self) -> usize {
        self.inner.lock().pending.len()
    }

    pub fn log(&self) -> Vec<LogRec> {
        self.inner.lock().log.clone()
    }

    pub fn log_len(&self) -> usize {
        self.inner.lock().log.len()
    }

    pub fn with_image_mut<R>(&self, f: impl FnOnce(&mut Vec<Vec<u8>>) -> R) -> R {
        f(&mut self.inner.lock().parts)
    }

    fn ensure_part(inner: &mut DiskInner, idx: usize, size: usize) -> Result<(), String> {
        if idx < inner.parts.len() {
            if inner.parts[idx].len() != size {
                return Err(format!(
                    "harness: partition {idx} reopened with size {size}, image has {}",
                    inner.parts[idx].len()
                ));
            }
        } else {
            while inner.parts.len() <= idx {
                inner.parts.push(vec![]);
            }
            inner.parts[idx] = vec![0u8; size];
        }
        Ok(())
    }

    /// Complete the i-th pending op (index into the current pending list). Returns false if none.
    pub fn complete(&self, i: usize) -> bool {
        self.finish(i, false)
    }

    pub fn fail(&self, i: usize) -> bool {
        self.finish(i, true)
    }

    fn finish(&self, i: usize, fail: bool) -> bool {
        let mut g = self.inner.lock();
        if i >= g.pending.len() {
            return false;
        }
        let p = g.pending.remove(i);
        g.progress += 1;
        let step = g.step;
        g.completions += 1;
        g.clock += 1;
        let order = g.completions;
        let clock = g.clock;
        if let Some(rec) = g.log.iter_mut().rev().find(|r| r.seq == p.seq) {
            rec.completed_at = Some(step);
            rec.completed_order = Some(order);
            rec.completed_clock = Some(clock);
            rec.failed = fail;
        }
        let completion = if fail {
            Completion::Fail
        } else {
            match p.kind {
                IoKind::Write => {
                    let data = p.data.as_ref().unwrap();
                    g.parts[p.part][p.offset..p.offset + p.len].copy_from_slice(data);
                    Completion::Ok(None)
                }
                IoKind::Read => Completion::Ok(Some(g.parts[p.part][p.offset..p.offset + p.len].to_vec())),
            }
        };
        drop(g);
        let _ = p.tx.send(completion);
        true
    }

    /// Complete everything that is pending, oldest first (new ops issued meanwhile are not touched).
    pub fn complete_all(&self) -> usize {
        let n = self.pending_len();
        for _ in 0..n {
            self.complete(0);
        }
        n
    }

    /// Image as it would be after a crash now: completed writes, plus for each `(pending index, page mask)` the
    /// selected pages of that pending write (bit i = i-th 4K page of the write).
    pub fn crash_image(&self, tears: &[(usize, u64)]) -> Vec<Vec<u8>> {
        let g = self.inner.lock();
        let mut img = g.parts.clone();
        for (i, mask) in tears {
            if let Some(p) = g.pending.get(*i) {
                if p.kind == IoKind::Write {
                    let data = p.data.as_ref().unwrap();
                    let pages = p.len / PAGE;
                    for pg in 0..pages {
                        if pg < 64 && (mask >> pg) & 1 == 1 {
                            let o = p.offset + pg * PAGE;
                            img[p.part][o..o + PAGE].copy_from_slice(&data[pg * PAGE..(pg + 1) * PAGE]);
                        }
                    }
                }
            }
        }
        img
    }

    /// Drop all pending ops without completing them (the process "died"): their futures resolve to nothing.
    pub fn abandon_pending(&self) {
        self.inner.lock().pending.clear();
    }
}

#[derive(Debug)]
pub struct SimPartition {
    id: PartitionId,
    index: usize,
    size: usize,
    statistics: Arc<Statistics>,
}

impl Partition for SimPartition {
    fn id(&self) -> PartitionId {
        self.id
    }
    fn size(&self) -> usize {
        self.size
    }
    fn translate(&self, address: u64) -> (RawFile, u64) {
        (RawFile(-1), address)
    }
    fn statistics(&self) -> &Arc<Statistics> {
        &self.statistics
    }
}

#[derive(Debug)]
pub struct SimDevice {
    disk: SimDisk,
    capacity: usize,
    parts: Mutex<Vec<Arc<SimPartition>>>,
    statistics: Arc<Statistics>,
}

impl SimDevice {
    pub fn new(disk: SimDisk, capacity: usize) -> Arc<Self> {
        Arc::new(Self {
            disk,
            capacity,
            parts: Mutex::new(vec![]),
            statistics: Arc::new(Statistics::new(Throttle::default())),
        })
    }
}

impl Device for SimDevice {
    fn capacity(&self) -> usize {
        self.capacity
    }

    fn allocated(&self) -> usize {
        self.parts.lock().iter().map(|p| p.size).sum()
    }

    fn create_partition(&self, size: usize) -> foyer::Result<Arc<dyn Partition>> {
        let mut parts = self.parts.lock();
        let allocated: usize = parts.iter().map(|p| p.size).sum();
        if allocated + size > self.capacity {
            return Err(foyer::Error::new(foyer::ErrorKind::NoSpace, "sim device full"));
        }
        let index = parts.len();
        if let Err(e) = SimDisk::ensure_part(&mut self.disk.inner.lock(), index, size) {
            panic!("{e}");
        }
        let p = Arc::new(SimPartition {
            id: index as PartitionId,
            index,
            size,
            statistics: self.statistics.clone(),
        });
        parts.push(p.clone());
        Ok(p)
    }

    fn partitions(&self) -> usize {
        self.parts.lock().len()
    }

    fn partition(&self, id: PartitionId) -> Arc<dyn Partition> {
        self.parts.lock()[id as usize].clone()
    }

    fn statistics(&self) -> &Arc<Statistics> {
        &self.statistics
    }
}

#[derive(Debug)]
pub struct SimIoEngine {
    disk: SimDisk,
}

fn io_err() -> foyer::Error {
    foyer::Error::io_error(std::io::Error::other("simulated io error"))
}

impl SimIoEngine {
    fn part_index(partition: &dyn Partition) -> usize {
        let any: &dyn Any = partition;
        any.downcast_ref::<SimPartition>()
            .expect("sim io engine used with a foreign partition")
            .index
    }
}

impl IoEngine for SimIoEngine {
    fn read(&self, mut buf: Box<dyn IoBufMut>, partition: &dyn Partition, offset: u64) -> IoHandle {
        let part = Self::part_index(partition);
        let offset = offset as usize;
        let len = buf.len();
        let mut g = self.disk.inner.lock();
        let seq = g.next_seq;
        g.next_seq += 1;
        g.progress += 1;
        let step = g.step;
        let in_range = offset + len <= g.parts[part].len();
        let fail_now = g.fail_all || !in_range;
        let hold = g.hold;
        g.clock += 1;
        let issued_clock = g.clock;
        let corder = if hold && !fail_now {
            None
        } else {
            g.completions += 1;
            g.clock += 1;
            Some(g.completions)
        };
        let completed_clock = corder.map(|_| g.clock);
        g.log.push(LogRec {
            issued_clock,
            completed_clock,
            seq,
            kind: IoKind::Read,
            part,
            offset,
            len,
            issued_at: step,
            completed_order: corder,
            completed_at: if hold && !fail_now { None } else { Some(step) },
            failed: fail_now,
            data: None,
        });
        if fail_now {
            drop(g);
            return async move { (buf.into_iob(), Err(io_err())) }.boxed().into();
        }
        if !hold {
            buf.copy_from_slice(&g.parts[part][offset..offset + len]);
            drop(g);
            return async move { (buf.into_iob(), Ok(())) }.boxed().into();
        }
        let (tx, rx) = oneshot::channel();
        g.pending.push(Pending {
            seq,
            kind: IoKind::Read,
            part,
            offset,
            len,
            data: None,
            tx,
        });
        drop(g);
        let fut: BoxFuture<'static, (Box<dyn IoB>, foyer::Result<()>)> = async move {
            match rx.await {
                Ok(Completion::Ok(Some(bytes))) => {
                    buf.copy_from_slice(&bytes);
                    (buf.into_iob(), Ok(()))
                }
                Ok(Completion::Ok(None)) => unreachable!("read completion without bytes"),
                Ok(Completion::Fail) => (buf.into_iob(), Err(io_err())),
                // the harness abandoned the op (crash): never resolve, the runtime is about to be dropped
                Err(_) => std::future::pending().await,
            }
        }
        .boxed();
        fut.into()
    }

    fn write(&self, buf: Box<dyn IoBuf>, partition: &dyn Partition, offset: u64) -> IoHandle {
        let part = Self::part_index(partition);
        let offset = offset as usize;
        let len = buf.len();
        let data = Arc::new(buf.to_vec());
        let mut g = self.disk.inner.lock();
        let seq = g.next_seq;
        g.next_seq += 1;
        g.progress += 1;
        let step = g.step;
        let in_range = offset + len <= g.parts[part].len();
        let fail_now = g.fail_all || !in_range;
        let hold = g.hold;
        g.clock += 1;
        let issued_clock = g.clock;
        let corder = if hold && !fail_now {
            None
        } else {
            g.completions += 1;
            g.clock += 1;
            Some(g.completions)
        };
        let completed_clock = corder.map(|_| g.clock);
        g.log.push(LogRec {
            issued_clock,
            completed_clock,
            seq,
            kind: IoKind::Write,
            part,
            offset,
            len,
            issued_at: step,
            completed_order: corder,
            completed_at: if hold && !fail_now { None } else { Some(step) },
            failed: fail_now,
            data: Some(data.clone()),
        });
        if fail_now {
            drop(g);
            return async move { (buf.into_iob(), Err(io_err())) }.boxed().into();
        }
        if !hold {
            g.parts[part][offset..offset + len].copy_from_slice(&data);
            drop(g);
            return async move { (buf.into_iob(), Ok(())) }.boxed().into();
        }
        let (tx, rx) = oneshot::channel();
        g.pending.push(Pending {
            seq,
            kind: IoKind::Write,
            part,
            offset,
            len,
            data: Some(data),
            tx,
        });
        drop(g);
        let fut: BoxFuture<'static, (Box<dyn IoB>, foyer::Result<()>)> = async move {
            match rx.await {
                Ok(Completion::Ok(_)) => (buf.into_iob(), Ok(())),
                Ok(Completion::Fail) => (buf.into_iob(), Err(io_err())),
                Err(_) => std::future::pending().await,
            }
        }
        .boxed();
        fut.into()
    }
}

#[derive(Debug)]
pub struct SimIoEngineConfig {
    pub disk: SimDisk,
}

impl IoEngineConfig for SimIoEngineConfig {
    fn build(self: Box<Self>, _: IoEngineBuildContext) -> BoxFuture<'static, foyer::Result<Arc<dyn IoEngine>>> {
        let disk = self.disk.clone();
        async move { Ok(Arc::new(SimIoEngine { disk }) as Arc<dyn IoEngine>) }.boxed()
    }
}

// ---- a metrics registry that records counters (to observe the documented shedding limits) -------------------

#[derive(Debug, Default)]
pub struct RecRegistryInner {
    counters: Mutex<BTreeMap<String, u64>>,
}

#[derive(Debug, Clone, Default)]
pub struct RecRegistry {
    inner: Arc<RecRegistryInner>,
}

impl RecRegistry {
    pub fn get(&self, suffix: &str) -> u64 {
        self.inner
            .counters
            .lock()
            .iter()
            .filter(|(k, _)| k.ends_with(suffix))
            .map(|(_, v)| *v)
            .sum()
    }
    pub fn dump(&self) -> BTreeMap<String, u64> {
        self.inner.counters.lock().clone()
    }
}

#[derive(Debug)]
struct RecCounter {
    key: String,
    inner: Arc<RecRegistryInner>,
}
impl CounterOps for RecCounter {
    fn increase(&self, val: u64) {
        *self.inner.counters.lock().entry(self.key.clone()).or_default() += val;
    }
}
#[derive(Debug)]
struct RecCounterVec {
    name: String,
    inner: Arc<RecRegistryInner>,
}
impl CounterVecOps for RecCounterVec {
    fn counter(&self, labels: &[std::borrow::Cow<'static, str>]) -> BoxedCounter {
        Box::new(RecCounter {
            key: format!("{}:{}", self.name, labels.join(":")),
            inner: self.inner.clone(),
        })
    }
}
#[derive(Debug)]
struct NoGauge;
impl GaugeOps for NoGauge {
    fn increase(&self, _: u64) {}
    fn decrease(&self, _: u64) {}
    fn absolute(&self, _: u64) {}
}
#[derive(Debug)]
struct NoGaugeVec;
impl GaugeVecOps for NoGaugeVec {
    fn gauge(&self, _: &[std::borrow::Cow<'static, str>]) -> BoxedGauge {
        Box::new(NoGauge)
    }
}
#[derive(Debug)]
struct NoHist;
impl HistogramOps for NoHist {
    fn record(&self, _: f64) {}
}
#[derive(Debug)]
struct NoHistVec;
impl HistogramVecOps for NoHistVec {
    fn histogram(&self, _: &[std::borrow::Cow<'static, str>]) -> BoxedHistogram {
        Box::new(NoHist)
    }
}

impl RegistryOps for RecRegistry {
    fn register_counter_vec(
        &self,
        name: std::borrow::Cow<'static, str>,
        _: std::borrow::Cow<'static, str>,
        _: &'static [&'static str],
    ) -> BoxedCounterVec {
        Box::new(RecCounterVec {
            name: name.to_string(),
            inner: self.inner.clone(),
        })
    }
    fn register_gauge_vec(
        &self,
        _: std::borrow::Cow<'static, str>,
        _: std::borrow::Cow<'static, str>,
        _: &'static [&'static str],
    ) -> BoxedGaugeVec {
        Box::new(NoGaugeVec)
    }
    fn register_histogram_vec(
        &self,
        _: std::borrow::Cow<'static, str>,
        _: std::borrow::Cow<'static, str>,
        _: &'static [&'static str],
    ) -> BoxedHistogramVec {
        Box::new(NoHistVec)
    }
    fn register_histogram_vec_with_buckets(
        &self,
        _: std::borrow::Cow<'static, str>,
        _: std::borrow::Cow<'static, str>,
        _: &'static [&'static str],
        _: Vec<f64>,
    ) -> BoxedHistogramVec {
        Box::new(NoHistVec)
    }
}
