//! Independent reader of foyer's on-disk format (written from the format description, own checksum calls) used to
//! attribute device writes to entries and to walk device images (C07, C12, C09).

use std::io::Read;

use twox_hash::XxHash64;

pub const PAGE: usize = 4096;
pub const ENTRY_HEADER: usize = 36;
pub const ENTRY_MAGIC: u32 = 0x9703_2700;

fn be32(b: &[u8]) -> u32 {
    u32::from_be_bytes(b[..4].try_into().unwrap())
}
fn be64(b: &[u8]) -> u64 {
    u64::from_be_bytes(b[..8].try_into().unwrap())
}
pub fn align_up(n: usize) -> usize {
    n.div_ceil(PAGE) * PAGE
}

#[derive(Clone, Debug, PartialEq, Eq)]
pub struct PEntry {
    pub hash: u64,
    pub sequence: u64,
    pub key_len: usize,
    pub value_len: usize,
    pub compression: u8,
    pub checksum_ok: bool,
    /// decoded u64 key / Vec<u8> value when the checksum holds and decoding works
    pub key: Option<u64>,
    pub value: Option<Vec<u8>>,
    /// header + payload length (unaligned)
    pub len: usize,
}

/// Parse one entry at the start of `buf`. None: no entry header here (magic mismatch / too short).
pub fn parse_entry(buf: &[u8]) -> Option<PEntry> {
    if buf.len() < ENTRY_HEADER {
        return None;
    }
    let key_len = be32(&buf[0..]) as usize;
    let value_len = be32(&buf[4..]) as usize;
    let hash = be64(&buf[8..]);
    let sequence = be64(&buf[16..]);
    let checksum = be64(&buf[24..]);
    let v = be32(&buf[32..]);
    if v & 0xFFFF_FF00 != ENTRY_MAGIC {
        return None;
    }
    let compression = (v & 0xFF) as u8;
    if compression > 2 {
        return None;
    }
    let len = ENTRY_HEADER + key_len + value_len;
    if len > buf.len() {
        return Some(PEntry {
            hash,
            sequence,
            key_len,
            value_len,
            compression,
            checksum_ok: false,
            key: None,
            value: None,
            len,
        });
    }
    let payload = &buf[ENTRY_HEADER..len];
    let checksum_ok = XxHash64::oneshot(0, payload) == checksum;
    let mut key = None;
    let mut value = None;
    if checksum_ok {
        let vbytes = &payload[..value_len];
        let kbytes = &payload[value_len..];
        if kbytes.len() == 8 {
            key = Some(u64::from_le_bytes(kbytes.try_into().unwrap()));
        }
        let raw: Option<Vec<u8>> = match compression {
            0 => Some(vbytes.to_vec()),
            1 => zstd::stream::decode_all(vbytes).ok(),
            _ => {
                let mut out = vec![];
                match lz4::Decoder::new(vbytes) {
                    Ok(mut d) => {
                        // the stream has no end mark (foyer does not finish the lz4 frame): read what is there
                        let mut buf = [0u8; 8192];
                        loop {
                            match d.read(&mut buf) {
                                Ok(0) => break,
                                Ok(n) => out.extend_from_slice(&buf[..n]),
                                Err(_) => break,
                            }
                        }
                        Some(out)
                    }
                    Err(_) => None,
                }
            }
        };
        if let Some(raw) = raw {
            if raw.len() >= 8 {
                let n = u64::from_le_bytes(raw[..8].try_into().unwrap()) as usize;
                if n.checked_add(8).map(|end| raw.len() >= end).unwrap_or(false) {
                    value = Some(raw[8..8 + n].to_vec());
                }
            }
        }
    }
    Some(PEntry {
        hash,
        sequence,
        key_len,
        value_len,
        compression,
        checksum_ok,
        key,
        value,
        len,
    })
}

#[derive(Clone, Debug, PartialEq, Eq)]
pub struct PIndex {
    pub hash: u64,
    pub sequence: u64,
    /// offset relative to the start of the blob
    pub offset: usize,
    pub len: usize,
}

/// Parse a blob index region. None: checksum mismatch (clean or damaged blob).
pub fn parse_blob_index(buf: &[u8]) -> Option<Vec<PIndex>> {
    if buf.len() < 12 {
        return None;
    }
    let expected = be64(&buf[0..]);
    if XxHash64::oneshot(0, &buf[8..]) != expected {
        return None;
    }
    let count = be32(&buf[8..]) as usize;
    if 12 + count * 24 > buf.len() {
        return None;
    }
    let mut out = Vec::with_capacity(count);
    for i in 0..count {
        let b = &buf[12 + i * 24..];
        out.push(PIndex {
            hash: be64(&b[0..]),
            sequence: be64(&b[8..]),
            offset: be32(&b[16..]) as usize,
            len: be32(&b[20..]) as usize,
        });
    }
    Some(out)
}

#[derive(Clone, Debug)]
pub struct PBlob {
    /// offset of the blob (its index) within the block
    pub offset: usize,
    pub indices: Vec<PIndex>,
}

/// Walk one block image the way recovery is documented to: blob index at offset 0, next blob at the aligned end of
/// the last entry of the previous one, stop at the first clean / damaged index.
pub fn walk_block(block: &[u8], blob_index_size: usize) -> Vec<PBlob> {
    let mut out = vec![];
    let mut off = 0usize;
    while off + blob_index_size <= block.len() {
        let Some(indices) = parse_blob_index(&block[off..off + blob_index_size]) else {
            break;
        };
        let step = match indices.last() {
            Some(last) => last.offset + align_up(last.len),
            None => block.len(),
        };
        out.push(PBlob { offset: off, indices });
        if step == 0 {
            break;
        }
        off += step;
    }
    out
}

#[derive(Clone, Debug)]
pub enum WriteKind {
    /// a (re)written blob index carrying these index records
    BlobIndex(Vec<PIndex>),
    /// entry data: the entries found back to back (page aligned) in the payload
    Data(Vec<PEntry>),
    /// one zero page at offset 0 (block clean)
    Clean,
    /// a tombstone-log page: (hash, sequence) slots with non-zero sequence
    Tombstones(Vec<(u64, u64)>),
    Unknown,
}

pub fn parse_tombstone_page(buf: &[u8]) -> Vec<(u64, u64)> {
    buf.chunks_exact(16)
        .map(|c| (be64(&c[0..]), be64(&c[8..])))
        .filter(|(_, s)| *s != 0)
        .collect()
}

/// Classify a device write. `tombstone_part` is the partition index of the tombstone log, if any.
pub fn classify_write(part: usize, offset: usize, data: &[u8], blob_index_size: usize, tombstone_part: Option<usize>) -> WriteKind {
    if Some(part) == tombstone_part {
        return WriteKind::Tombstones(parse_tombstone_page(data));
    }
    if data.len() == PAGE && offset == 0 && data.iter().all(|b| *b == 0) {
        return WriteKind::Clean;
    }
    if data.len() == blob_index_size {
        if let Some(ix) = parse_blob_index(data) {
            return WriteKind::BlobIndex(ix);
        }
    }
    let mut entries = vec![];
    let mut off = 0;
    while off + ENTRY_HEADER <= data.len() {
        match parse_entry(&data[off..]) {
            Some(e) => {
                let step = align_up(e.len.max(1));
                entries.push(e);
                off += step;
            }
            None => break,
        }
    }
    if entries.is_empty() { WriteKind::Unknown } else { WriteKind::Data(entries) }
}
