#!/usr/bin/env python3
import json,glob,os,sys
prop=sys.argv[1]
fs=sorted(glob.glob('/verif/out/replays/%s_*.json'%prop), key=os.path.getmtime)
d=json.load(open(fs[-1])); c=d['case'].get('cfg',{})
print(fs[-1])
print({k:c[k] for k in c if k not in ('hash','admission_reject','reinsert','submit_queue_threshold','indexer_shards','buffer_pool_size')})
for i,o in enumerate(d['case']['ops']): print(i+1,json.dumps(o))
print(d['signature'], '::', d['message'])
