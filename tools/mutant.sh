#!/bin/sh
# usage: mutant.sh <patch.diff> <Cxx> [tier]   -- apply a patch to /repo, run the check, always revert.
# Used only for sensitivity validation; never leaves /repo modified.
patch="$1"; prop="$2"; tier="${3:-quick}"
cd /repo || exit 2
if [ -n "$(git status --porcelain --untracked-files=no)" ]; then echo "repo dirty, refusing"; exit 2; fi
git apply "$patch" || { echo "patch does not apply"; exit 2; }
cd /verif && ./run.sh "$prop" "$tier" > /verif/out/mutant_run.log 2>&1
code=$?
git -C /repo checkout -- .
# rebuild against the restored tree so that no mutant binary is left behind
(cd /verif/harness && CARGO_NET_OFFLINE=true cargo build --release --offline >/dev/null 2>&1)
[ "$prop" = "C08" ] && (cd /verif/harness-serde && CARGO_NET_OFFLINE=true cargo build --release --offline >/dev/null 2>&1)
tail -n 6 /verif/out/mutant_run.log
echo "exit=$code"
exit $code
