#!/bin/bash
# usage: seed_run.sh <patch> <Cxx> [tier] [more Cxx...]  -- apply a seeded change to /repo, run checks, always revert.
patch="$1"; shift
tier=quick
cd /repo || exit 2
if [ -n "$(git status --porcelain --untracked-files=no)" ]; then echo "repo dirty, refusing"; exit 2; fi
git apply "$patch" 2>/dev/null || git apply -3 "$patch" || { echo "patch does not apply"; git checkout -- .; exit 2; }
cd /verif
for prop in "$@"; do
  s=$(date +%s)
  ./run.sh "$prop" "$tier" > /verif/out/seed_run_$prop.log 2>&1
  code=$?
  e=$(date +%s)
  echo "[$prop] exit=$code $((e-s))s :: $(grep -E 'violation signature|VIOLATION|INCONCLUSIVE|BUILD-FAILED' /verif/out/seed_run_$prop.log | head -3 | cut -c1-400)"
done
git -C /repo checkout -- .
git -C /repo reset -q
(cd /verif/harness && CARGO_NET_OFFLINE=true cargo build --release --offline >/dev/null 2>&1)
