#!/bin/bash
# usage: thorough_sweep.sh [props...]  -- run thorough tiers with a private copy of the binary; evidence -> /verif/out/thorough
props="${@:-C01 C02 C03 C04 C05 C06 C07 C08 C09 C10 C11 C12 C13 C14 C15 C16 C17 C18}"
mkdir -p /verif/out/thorough
export VERIF_OUT_ROOT=/verif/out/thorough
cp /verif/target/release/check /verif/out/thorough/check.bin
for p in $props; do
  t0=$(date +%s)
  timeout ${THOROUGH_TIMEOUT:-7200} /verif/out/thorough/check.bin $p --tier thorough > /verif/out/thorough/$p.log 2>&1
  c=$?
  t1=$(date +%s)
  echo "$p exit=$c $((t1-t0))s $(grep -E 'VIOLATION|INCONCLUSIVE' /verif/out/thorough/$p.log | head -1 | cut -c1-200)"
done
