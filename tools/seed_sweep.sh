#!/bin/bash
# usage: seed_sweep.sh "<seeds>" [props...]   -- run quick checks under several VERIF_SEED values with the CURRENT binary,
# evidence/replays redirected to /verif/out/sweep so that committed evidence is untouched. Prints one line per run.
seeds="$1"; shift
props="${@:-C01 C02 C03 C04 C05 C06 C07 C08 C09 C10 C11 C12 C13 C14 C15 C16 C17 C18}"
mkdir -p /verif/out/sweep
export VERIF_OUT_ROOT=/verif/out/sweep
cp /verif/target/release/check /verif/out/sweep/check.bin
for s in $seeds; do
  for p in $props; do
    t0=$(date +%s)
    VERIF_SEED=$s /verif/out/sweep/check.bin $p --tier quick > /verif/out/sweep/$p.s$s.log 2>&1
    c=$?
    t1=$(date +%s)
    echo "seed=$s $p exit=$c $((t1-t0))s $(grep -E 'VIOLATION|INCONCLUSIVE' /verif/out/sweep/$p.s$s.log | head -1 | cut -c1-200)"
  done
done
