#!/bin/bash
# usage: seed_verify.sh <Cxx> <m1|m2> "<demo command>"
# Confirms a seeded change in its scratch worktree /tmp/seed/<Cxx>/wt: (1) demo passes on the clean tree,
# (2) demo fails with the change, (3) the existing suite passes with the change (without the demo).
id="$1"; m="$2"; demo="$3"
wt=${SEEDROOT:-/tmp/seed}/$id/wt; out=${SEEDROOT:-/tmp/seed}/$id/out
export CARGO_NET_OFFLINE=true
cd "$wt" || exit 2
clean() { git checkout -q -- . && git clean -fdq -e target; }
clean
git apply "$out/$m.demo.diff" || { echo "demo does not apply"; exit 2; }
echo "== demo on clean tree"; timeout 900 bash -c "$demo" > "$out/$m.verify_clean.log" 2>&1; c1=$?
git apply "$out/$m.patch.diff" || { echo "patch does not apply"; clean; exit 2; }
echo "== demo with change"; timeout 900 bash -c "$demo" > "$out/$m.verify_mut.log" 2>&1; c2=$?
clean
git apply "$out/$m.patch.diff"
echo "== suite with change"; timeout 3000 cargo nextest run --workspace --no-fail-fast --test-threads 8 --offline > "$out/$m.verify_suite.log" 2>&1; c3=$?
clean
echo "RESULT $id $m demo_clean_exit=$c1 (want 0) demo_mut_exit=$c2 (want !=0) suite_exit=$c3 (want 0) $(grep -E 'Summary|tests run' "$out/$m.verify_suite.log" | tail -1)"
