#!/usr/bin/env python3
"""Generates /verif/MANIFEST.json from the table below (single source of truth for what is claimed)."""
import json, subprocess

CHECKS = {
 "C02": dict(engine="memrace", category="exploration", design="§5 C02",
   text="memrace: generated programs (2-4 threads x 1-5 ops: insert / remove / get / contains / touch / get_or_fetch / clear / resize / evict_all / drop or re-read a held handle; 2-3 keys biased to one key, capacities 1-6, shards 1-4 with an identity hasher so keys share and span shards, five algorithms) run on real OS threads against one Cache. (sched) the harness owns the schedule: foyer (feature verif) calls a schedule point before every shard critical section and after the last reference of a handle is released; a baton lets exactly one program thread run, so the order of critical sections and unlocked windows is the generated schedule - deterministic and replayable; small programs (2 threads x <= 2 ops, 3 threads x 1 op) are enumerated over every schedule up to a preemption bound of 2 (quick) / 3 (thorough). (free) the same programs on free-running threads with seeded jitter at the same points, 20/100 runs each. Every op is stamped invoke/response from one SeqCst counter; oracle = per-key Wing-Gong linearizability search against a register over {absent} U versions whose reads may miss, plus bit-exact validation of every handle when obtained, on demand, at thread end.",
   note="sched mode explores orders of critical sections and of the unlocked windows between them, not data races inside a critical section; free mode samples OS interleavings (sound oracle, sampling search). evict_all / resize are modelled as 'may evict' (pinned entries legitimately survive). A get_or_fetch answered by another call never publishes its own fetched value (fix e4ad855: the fetch task publishes only if its flight is still open, decided inside the shard critical section), so no late write is modelled: a read of such a value has no linearization. A hang or a crash of the check process is reported as inconclusive (exit 2).",
   technique="property-based testing of concurrent programs with a harness-owned schedule (proptest random + bounded-exhaustive schedule enumeration) and free-running stress, per-key linearizability oracle"),
 "C01": dict(engine="hybsim", category="exploration", design="§5 C01, §3.1-3.2",
   text="hybsim: HybridCache on a simulated device + io engine (feature verif) with all foyer tasks on one harness-driven runtime; the generated history owns the device-io completion order (hold / complete i-th / drain), memory eviction, handle drops, graceful reopen, and a history-driven admission switch (the filter decision can flip between two inserts of a key). Versioned self-describing values; oracle = per-key write timeline with linearization windows: a lookup may return a miss or a version that no other write definitely supersedes before the lookup started; values validate bit for bit. 60k (quick) / 1.5M (thorough) random histories over both policies, five algorithms, tombstone on/off, none/zstd/lz4, flushers/reclaimers 1-2, 4-8 blocks, sizes 0 .. per-entry max + 1.",
   note="Documented carve-outs are modelled, not ignored: shedding limits (cases discarded and counted), placement class fixed per key, no tombstone log => reopen may bring back removed/updated entries, no flush_on_close => reopen may bring back older versions, a get_or_fetch still unresolved when close() is called is concurrent with the close flush. Two design-level known findings (disk-only entries with a held handle; LRU-pinned entry at close) are tolerated by structural signature. Single OS thread: task interleavings at await points are explored, not data races.",
   technique="model-based property testing on a deterministic simulated device with harness-owned io schedule (proptest random), timeline/linearization oracle"),
 "C05": dict(engine="memsim", category="exploration", design="§5 C05",
   text="Bounded-exhaustive enumeration (all op sequences to depth 3/4 over a 26..29-op alphabet, five algorithms, several capacity/shard grids) plus proptest random histories up to 120/300 ops, judged after every step by an event-driven reference model: usage()==sum of findable weights, entries()==count, every eviction necessary, bound re-established unless all others pinned / new entry oversize, clear()=>0, shard capacities sum to capacity (capdist, exhaustive over capacity 0..12 x shards 1..6 x resize). Exploration, exhaustive for small bounds: the right level for an all-sequences arithmetic invariant with an exact oracle.",
   note="Single-threaded histories (every step quiescent). Victim choice is learned from listener events (validated by contains/usage), not predicted; capacity() getter after resize not asserted.",
   technique="model-based property testing (bounded-exhaustive + proptest random) against a reference accounting model"),
 "C13": dict(engine="memsim", category="exploration", design="§5 C13",
   text="Same histories with a recording EventListener and (in 3 of 4 random cases and one of two exhaustive resize grids) a recording Pipe; conservation oracle: each admitted entry id gets exactly one on_leave whose reason the operation permits, never while still findable, and pipe offers equal the Evict-reason ids (plus disk-only entries at last handle drop) exactly once; epilogue drops handles, then the cache (Clear for all residents).",
   note="Single-threaded; notification count for filter-rejected (never admitted) entries is not asserted, only their single disk hand-off.",
   technique="model-based property testing (bounded-exhaustive + proptest random), history invariant over listener/pipe events"),
 "C18": dict(engine="memsim", category="exploration", design="§5 C18",
   text="Same histories (incl. get_or_fetch hits and misses) focusing on handles: after every step every live handle reads its original key/value/weight, is_outdated() equals the model's 'lookup would not return this entry', LRU never evicts a looked-up-and-held entry; epilogue drops all handles and inserts once per shard: every shard must be within capacity (no leaked pins).",
   note="Single-threaded; the multi-threaded drop/get race on the reference count is not explored here.",
   technique="model-based property testing (bounded-exhaustive + proptest random) with per-handle invariants"),
 "C14": dict(engine="memsim", category="exploration", design="§5 C14, Appendix A",
   text="Differential test of a one-shard Cache against five reference models written from the documented rules and the SIEVE / S3-FIFO / W-TinyLFU papers; compared observable is the ordered (Evict,key) sequence of every operation and the resident set after it. Set-valued only where the documentation is silent. Bounded-exhaustive (depth 3-5) plus random histories up to 400 ops over 50 configurations (pool/queue ratios, thresholds, sketch sizes small enough to reach halving).",
   note="Single shard, single thread; the count-min sketch implementation (datasketches) is shared with foyer and trusted; clear() is outside the C14 alphabet.",
   technique="differential property testing against reference eviction models (bounded-exhaustive + proptest random)"),
 "C06": dict(engine="fetchsim", category="exploration", design="§5 C06, §3.3",
   text="fetchsim: the harness owns caller arrival, resolution of each disk lookup (hit/miss/error) and origin fetch (ok/error), when the fetch tasks run, caller drops, cancellation (runtime drop) and concurrent insert/remove; a reference state machine of the single-flight protocol predicts for every caller whether and with what it must be answered at each settle point, which futures may have been polled, and the cache content. Bounded-exhaustive over a 16-op alphabet to depth 5/6 x five algorithms + random histories over two keys. Hangs are decided by quiescence (everything resolved, tasks idle, caller still pending), not by timers.",
   note="Memory-only Cache with a harness 'disk lookup' future plugged into get_or_fetch_inner exactly as HybridCache does; tasks run on a harness-driven current-thread runtime (no OS-thread races). Error kind for a cancelled flight may be TaskCancelled or ChannelClosed.",
   technique="model-based property testing with a harness-owned schedule (bounded-exhaustive + proptest random) against a protocol state machine"),
 "C11": dict(engine="fetchsim", category="exploration", design="§5 C11",
   text="Same engine, alphabet {fetch starts, insert returns (plain or disk-only), fetch resolves ok/err, insert completes during the final poll of the origin, lookups, remove, settle}: every caller waiting when insert(k,v) returns must receive v; results of fetches (or disk lookups) that belonged to a flight closed by an explicit insert must never surface in the cache or at a later caller. Exhaustive depth 5/6 x five algorithms + random.",
   note="The harness owns the order, including 'the insert runs to completion inside the poll in which the origin returns its value' (what a second thread can do at any time, made deterministic); OS-thread races are C02's free mode.",
   technique="model-based property testing with a harness-owned schedule (bounded-exhaustive + proptest random)"),
 "C16": dict(engine="memsim", category="exploration", design="§5 C16",
   text="memsim histories (C05/C13 alphabet plus get_or_fetch with ready / failing / never-resolving origins) on a single-shard Cache, all five algorithms; listener, weighter, memory filter and the Drop of every key and value owned by the cache are harness objects that read the lock probe (hook: shard RwLock or in-flight-table Mutex held => violation; exact on one thread, no timing) and, only if it is clear, perform a generated re-entrant get/contains/insert/remove on the same shard.",
   note="Single thread, so a held lock seen by the probe is held by the caller. Destructors of user futures/closures (not keys or values) are outside the statement and not probed. Hybrid callbacks are probed by the hybsim checks; multi-threaded deadlock detection is not part of this check.",
   technique="property-based testing with instrumented callbacks (lock probe + re-entrant operations), proptest random"),
 "C17": dict(engine="memsim+fetchsim", category="exploration", design="§5 C17",
   text="Key sets built to collide under a user-supplied hasher (full 64-bit collisions of 2..6 keys; same-shard / same-low-bits collisions): memsim histories with ample capacity under the exact reference model (every lookup of k returns k's own current entry, ops on k1 never change k2) and fetchsim histories over colliding keys under the single-flight protocol model (flights of colliding keys stay separate).",
   note="Memory cache and in-flight table only in this round; the hybrid (disk index by hash, write queue, recovery) half is added with hybsim. contains() false positives on the disk tier are allowed by documentation.",
   technique="model-based property testing with an adversarial user-supplied hasher (proptest random)"),
 "C12": dict(engine="hybsim", category="exploration", design="§5 C12",
   text="hybsim histories with immediate io (every step quiescent) over insert_with_properties (Default/InMem/OnDisk), storage-writer inserts, get / get_or_fetch (memory hit, disk hit, origin), handle drops, evict_all and capacity evictions, load throttling, close, reopen; both policies, flush_on_close on/off, admission filter admit / reject some keys, FifoPicker probation 10/50/100 % plus a wrapping-device sub-run under both policies so disk-loaded entries are reported Young and Old. Differential oracle: the (key, version) set newly present in device data writes of each step (attributed by an independent format reader) must equal a write-expectation model of policy and advice.",
   note="What close must persist is C15's claim; here close writes are only checked for what must NOT be written. The Young/Old age is read from the entry foyer returns. Values >= 25 bytes so every written entry is attributable.",
   technique="differential property testing against a write-expectation model on a simulated device (proptest random)"),
 "C15": dict(engine="hybsim", category="exploration", design="§5 C15",
   text="hybsim histories ending in: snapshot of the memory tier, close(), up to 4 ops on the closed cache (inserts, removes, second close, lookups), reopen, get of every key; variants: drop without close, 'process dies the instant close() returns' (held io; only device writes completed by then survive), and a tight flush buffer with a backlog (held io: backlog + resident set exceed the buffer, each alone fits). Oracle: close resolves with Ok (twice), no device write after close returned, flush_on_close=false writes no entry data, every non-InMem resident entry hits with exactly its version after reopen (miss = violation), InMem residents miss. Hangs by quiescence.",
   note="Provisos enforced by construction and verified from the write log: the page-aligned resident set fits one flusher's buffer (shedding that first happens during close is excused only otherwise), no block reclaimed; entries that cannot be written at all are outside the claim. One known finding (LRU-pinned entry at close) tolerated by structural signature.",
   technique="model-based property testing on a deterministic simulated device incl. crash-at-return (proptest random)"),
 "C10": dict(engine="hybsim", category="exploration", design="§5 C10",
   text="Macro-op histories on HybridCache (simulated device, tombstone log on, both policies, 1-2 flushers): insert n keys, delete the n oldest live keys / n never-inserted keys / keys whose insert is still queued (delete races the insert in the flusher queue) with n from {1..6, 255, 256, 257, 300, 511, 512, 513, 100..700}, re-insert recently deleted keys, wait, graceful reopen, crash right after an acknowledged wait; tombstones bounded by the log capacity, device sized so nothing is reclaimed (verified from the write log). After every reopen and a final one: every deleted-and-not-reinserted key misses, every live key hits with its exact version.",
   note="Identity hasher (no collisions). Log wrap-around (more tombstones than device pages) is outside the statement and not generated.",
   technique="model-based property testing with restart cycles on a simulated device (proptest random)"),
 "C04": dict(engine="hybsim", category="fault_enumeration", design="§5 C04",
   text="Workloads (inserts, overwrites, deletes, memory evictions, wait) with held io and generated completion order; crash points are enumerated: an image after every completed device write plus every page-subset tear (all subsets for <= 3 pages, generated masks beyond) of every write in flight at that moment; every image is reopened in quiet mode and all keys read (validity; durability of acknowledged ops while nothing is reclaimed before or after the restart); selected images get a restart cycle with a second workload, flush, read-back and a second crash.",
   note="Blob index is one page (default), so a page-granular tear cannot split an index rewrite. The device applies a completed write atomically and loses in-flight writes; completed writes are never reordered. 'Acknowledged' = a wait() issued after the op was handed to the disk tier has resolved.",
   technique="crash-point and torn-write enumeration over generated workloads on a simulated device (proptest-generated workloads, enumerated faults)"),
 "C03": dict(engine="hybsim", category="fault_enumeration", design="§5 C03",
   text="Generated workloads (1-3 page and tiny values, overwrites, deletes, none/zstd/lz4, tombstone log on/off, 4-8 blocks so most workloads wrap the device) produce device images; faults are enumerated for every page of the image incl. the tombstone log: zero page, all-ones page, two bit flips (one inside the first 64 bytes = header/checksum/count fields), swap within the block, swap across partitions and with the first tombstone page, older generations of the same page; plus generated multi-fault sets. Every fault is served to the running store (live index, load path) and applied to an image that is reopened in quiet mode; then every key is read. Oracle: no panic - caught by catch_unwind or swallowed by the runtime and surfaced to the caller as an error - each read is a miss, an error or bit-exactly a version really inserted for that key.",
   note="A 64-bit xxhash collision is not searched for. A process abort (allocation failure) cannot be caught in-process: it would surface as a broken (aborted) check run, which is how the Vec::with_capacity abort was found. Byte level: the committed seed inputs of the cargo-fuzz targets fmt_entry, fmt_entry_struct, fmt_blob_index are replayed in-process (quick); thorough runs the coverage-guided campaigns (fmt_entry_struct 2M, fmt_blob_index 10M executions; in-target oracle: accepted => checksummed bytes verified).",
   technique="fault enumeration over device images produced by generated workloads (proptest workloads, enumerated per-page faults, explicit validity oracle) + coverage-guided fuzzing of the format readers (cargo-fuzz/libFuzzer) in the thorough tier"),
 "C07": dict(engine="hybsim+fmt", category="exploration", design="§5 C07",
   text="(splitter) generated block sizes, blob-index sizes and sequences of batches of entry lengths (boundary values, runs of 169/170/171/340/341 small entries) drive Buffer + Splitter::split with a persistent SplitCtx; invariants on every blob part and on a virtual device replayed from the parts and walked by an independent format reader (scan == written, disjoint regions, payload at recorded position). (end to end) hybsim histories whose batch boundaries are chosen by holding io, with sizes that fill the current block exactly / by one page more, runs that fill blob indexes, deletes, reuse after reclaim and graceful reopen; at every quiescent point: independent parse of every block (geometry, index == header, checksum), every key the disk tier claims loads and equals the entry the scan reconstructs as newest for its hash, and after a graceful reopen recovery == scan and nothing loadable is lost; crash cut-offs inside a batch: after each completed device write of the batch a copy of the device is reopened and every key the reopened tier claims must load. Seed inputs of the cargo-fuzz target `splitter` replayed in quick, 400k-execution campaign in thorough.",
   note="Identity hasher; compression off in the end-to-end part. Staleness relative to the insert history is C01's claim and not asserted here. A runaway loop / allocation inside the splitter ends the run as inconclusive (exit 2) through run.sh's supervision.",
   technique="property-based testing with an independent format reader as oracle (proptest random): direct splitter harness + end-to-end on the simulated device"),
 "C08": dict(engine="fmt", category="exploration", design="§5 C08",
   text="(code) every built-in Code type (14 numeric types at MIN/MAX/0/1/random, floats by bit pattern incl. NaN payloads, bool, String, Vec<u8>, Bytes with lengths concentrated at page boundaries): decode(encode(x)) == x bitwise, no trailing bytes, every too-small destination => size-limit error. (ser) EntrySerializer/EntryDeserializer + Buffer::push headers for five key/value type pairs under none/zstd/lz4: KvInfo lengths == bytes written (independent counting writer), round trip, every cut-off of the destination is a size-limit error and never Ok, header fields == actual lengths, independent format reader agrees. (mut) valid entries / blob indexes damaged by byte edits and truncation are accepted only if the checksummed bytes are intact and decode to the originals. (tier) on hybsim, values at the per-entry limit -5000..+600 bytes under each codec: accepted => loads bit-exactly and found intact on the device by the independent reader, rejected => absent as a whole. (serde) the code + ser parts again in a second binary built with the `serde` feature (blanket bincode impl). Two entries in one flush buffer (position of the second, first one intact). Seed inputs of the cargo-fuzz targets replayed in-process (quick); thorough runs libFuzzer campaigns: code_roundtrip 20M, fmt_entry 20M, ser_roundtrip 60k executions (ASan, debug assertions).",
   note="Storable types are the built-in Code impls plus (serde build) the same types through bincode; user-defined Code impls are outside the statement. The cut-off oracle covers the `&mut [u8]` destination the flusher uses.",
   technique="property-based testing (proptest random with boundary-biased generators): round-trip, cut-off enumeration, byte-mutation with an independent format reader; thorough adds coverage-guided fuzzing (cargo-fuzz/libFuzzer) of the same in-target oracles"),
 "C09": dict(engine="hybsim", category="exploration", design="§5 C09",
   text="Sustained workloads of several device capacities (mixed sizes, overwrites, deletes, bursts) on devices of 4-12 blocks x 16-64 KiB, flushers 1-3, reclaimers 1-2, thresholds inside the engine's no-warning domain, reinsertion filter none / a small set (<= half a block of one-page entries) / one key whose entries fill a block exactly, flush buffer 1-2 blocks per flusher (and an oversized class), plus a reinsert-focus sub-run (no shedding, reinsertion keys acknowledged first, device wrapped); io held and completed in a generated order that includes reclaim reads and clean writes. Log invariants from the simulated device's logical clock: no overlapping in-flight writes, data ranges of a block epoch disjoint, index rewrites never touch entry data, no clean while a write to the block is in flight and vice versa. At quiescent points every key is intact (current version) or absent; wait() at generated points resolves under every generated completion order (quiescence = stall); reinsertion-filter keys whose latest version was flushed still hit after their block's reclaim.",
   note="The 'oldest-filled first' sub-claim is NOT decided: an executable notion of 'filled' that is robust to multi-block batches under held io could not be stated without alarms on the unchanged tree (see DESIGN.md §C09). One known finding (stale entry when the older version's block write of a multi-block batch is issued after / still unfinished when a newer version's block write is issued; identified from the device log) is tolerated by structural signature. The reinsertion working set is kept inside the domain in which progress is possible at all (a set that needs as many blocks as the device can spare is rewritten forever by construction). Single OS thread.",
   technique="property-based testing on a simulated device with generated io completion order (proptest random), io-log invariants + model oracle + quiescence-based liveness"),
}

NOT_YET = {
}

ALL = ["C%02d" % i for i in range(1, 19)]

def main():
    commits = subprocess.run(["git", "-C", "/repo", "log", "--format=%H %s"], capture_output=True, text=True).stdout.splitlines()
    hook_commits = [l.split()[0] for l in commits if l.split(" ", 1)[1].startswith("verif:")]
    checks = []
    for pid in ALL:
        if pid not in CHECKS:
            continue
        c = CHECKS[pid]
        checks.append({
            "property_id": pid,
            "quick_cmd": f"./run.sh {pid} quick",
            "thorough_cmd": f"./run.sh {pid} thorough",
            "evidence_file": f"/verif/evidence/{pid}.json",
            "replay_cmd_template": "./target/release/check replay {path}",
            "engine": c["engine"],
            "level_claimed": {"category": c["category"], "text": c["text"], "design_ref": c["design"]},
            "level_note": c["note"],
            "technique": c["technique"],
        })
    na = []
    for pid in ALL:
        if pid not in CHECKS:
            na.append({"property_id": pid, "reason": NOT_YET.get(pid, "check not built yet in this round (planned, see DESIGN.md §5); not claimed until its check exists and is silent on the unchanged tree")})
    manifest = {
        "version": 1,
        "setup_cmd": "cd /verif/harness && CARGO_NET_OFFLINE=true cargo build --release --offline && cd /verif/harness-serde && CARGO_NET_OFFLINE=true cargo build --release --offline",
        "hooks": {
            "guard": "verif",
            "enable": "cargo feature `verif` on foyer / foyer-memory / foyer-storage, enabled by the path dependencies in /verif/harness/core/Cargo.toml",
            "baseline_off_cmd": "cd /repo && cargo nextest run --workspace --no-fail-fast --test-threads 8 --offline || cargo test --workspace --no-fail-fast --offline",
            "source_commits": hook_commits,
            "add_only": True,
        },
        "engines": [
            {"name": "memsim", "path": "/verif/harness/core/src/memsim.rs", "serves_properties": ["C05", "C13", "C14", "C16", "C17", "C18"],
             "kind_free_text": "single-threaded interpreter for foyer::Cache histories + event-driven reference model (memoracle.rs) + eviction reference models (evmodel.rs)"},
            {"name": "memrace", "path": "/verif/harness/core/src/memrace.rs", "serves_properties": ["C02"],
             "kind_free_text": "executes generated multi-thread programs against foyer::Cache on real threads, either under a harness-owned schedule (baton passed at foyer's verif schedule points) or free-running with jitter; history recorder + per-key linearizability checker"},
            {"name": "hybsim", "path": "/verif/harness/core/src/hybsim.rs", "serves_properties": ["C01", "C03", "C04", "C07", "C09", "C10", "C12", "C15", "C17"],
             "kind_free_text": "deterministic interpreter for HybridCache histories on a simulated device/io engine (simdev.rs) with harness-owned io completion order; oracles in hyboracle.rs; independent format reader fmtparse.rs"},
            {"name": "fmt", "path": "/verif/harness/core/src/c08check.rs", "serves_properties": ["C08"],
             "kind_free_text": "direct harness around Code / EntrySerializer / EntryDeserializer / Buffer / BlobIndexReader (c08shared.rs is compiled twice: without and with foyer's serde feature, the latter in /verif/harness-serde) + cargo-fuzz targets in /verif/fuzz"},
            {"name": "fetchsim", "path": "/verif/harness/core/src/fetchsim.rs", "serves_properties": ["C06", "C11", "C17"],
             "kind_free_text": "manual executor for get_or_fetch histories: harness futures for disk lookup / origin fetch, harness-driven runtime, protocol state machine as oracle"},
        ],
        "checks": checks,
        "not_applicable": na,
        "notes": "All checks: property-based testing / bounded-exhaustive enumeration with explicit oracles; seeds from VERIF_SEED; replay files under /verif/out/replays; known findings in /verif/known-findings.txt.",
    }
    json.dump(manifest, open("/verif/MANIFEST.json", "w"), indent=1)
    print("wrote MANIFEST.json with", len(checks), "checks,", len(na), "not_applicable")

main()
