//! `check-serde <seed> <quick|thorough>`: the C08 encode/decode and entry-serializer oracles against foyer built with
//! the `serde` feature (blanket bincode `Code` impl). Prints one line `SERDE-RESULT <json>`; spawned by `check C08`.

use proptest::{
    strategy::{Strategy, ValueTree},
    test_runner::{Config, FileFailurePersistence, RngAlgorithm, TestRng, TestRunner},
};
use serde_json::json;

pub mod common {
    #[derive(Clone, Debug)]
    pub struct Failure {
        pub signature: String,
        pub message: String,
    }
    impl Failure {
        pub fn new(signature: impl Into<String>, message: impl Into<String>) -> Self {
            Self { signature: signature.into(), message: message.into() }
        }
    }
    #[derive(Clone, Debug, Default)]
    pub struct CaseReport {
        pub nontrivial: bool,
        pub classes: Vec<&'static str>,
        pub discarded: bool,
        pub failure: Option<Failure>,
        pub tolerated: Vec<Failure>,
    }
}
#[path = "../../harness/core/src/fmtparse.rs"]
pub mod fmtparse;
#[path = "../../harness/core/src/c08shared.rs"]
pub mod c08shared;

use common::{CaseReport, Failure};

fn drive<S: Strategy>(seed: u64, cases: u32, strat: S, exec: impl Fn(&S::Value) -> CaseReport, evals: &mut u64, nontrivial: &mut u64) -> Option<(serde_json::Value, Failure)>
where
    S::Value: serde::Serialize + Clone,
{
    let mut bytes = [0u8; 32];
    bytes[..8].copy_from_slice(&seed.to_le_bytes());
    bytes[8] = 0x5e;
    let mut runner = TestRunner::new_with_rng(
        Config { failure_persistence: Some(Box::new(FileFailurePersistence::Off)), ..Config::default() },
        TestRng::from_seed(RngAlgorithm::ChaCha, &bytes),
    );
    for _ in 0..cases {
        let mut tree = strat.new_tree(&mut runner).expect("strategy");
        let rep = exec(&tree.current());
        *evals += 1;
        if rep.nontrivial {
            *nontrivial += 1;
        }
        if let Some(mut f) = rep.failure {
            // shrink by hand: keep the same signature
            let mut best = tree.current();
            let mut budget = 2000;
            loop {
                if budget == 0 || !tree.simplify() {
                    break;
                }
                budget -= 1;
                loop {
                    let cur = tree.current();
                    match exec(&cur).failure {
                        Some(f2) if f2.signature == f.signature => {
                            best = cur;
                            f = f2;
                            break;
                        }
                        _ => {
                            if !tree.complicate() {
                                break;
                            }
                        }
                    }
                    budget -= 1;
                    if budget == 0 {
                        break;
                    }
                }
            }
            return Some((serde_json::to_value(&best).unwrap_or(serde_json::Value::Null), f));
        }
    }
    None
}

fn main() {
    let args: Vec<String> = std::env::args().collect();
    if args.get(1).map(|s| s == "replay").unwrap_or(false) {
        // check-serde replay <replay.json>: case = {"sub": "code"|"ser", "case": ...}
        let text = std::fs::read_to_string(&args[2]).expect("replay file");
        let v: serde_json::Value = serde_json::from_str(&text).expect("json");
        let inner = &v["case"];
        let f = match inner["sub"].as_str() {
            Some("code") => c08shared::exec_scalar(&serde_json::from_value(inner["case"].clone()).expect("case")).failure,
            _ => c08shared::exec_ser(&serde_json::from_value(inner["case"].clone()).expect("case")).failure,
        };
        match f {
            Some(f) => {
                println!("REPRODUCED signature={} {}", f.signature, f.message);
                std::process::exit(1);
            }
            None => {
                println!("NOT-REPRODUCED");
                std::process::exit(0);
            }
        }
    }
    let seed: u64 = args.get(1).and_then(|s| s.parse().ok()).unwrap_or(0);
    let thorough = args.get(2).map(|s| s == "thorough").unwrap_or(false);
    std::panic::set_hook(Box::new(|_| {}));
    let mut evals = 0;
    let mut nontrivial = 0;
    let n_code = if thorough { 400_000 } else { 30_000 };
    let n_ser = if thorough { 100_000 } else { 5_000 };
    let guarded = |f: &dyn Fn() -> CaseReport| -> CaseReport {
        match std::panic::catch_unwind(std::panic::AssertUnwindSafe(f)) {
            Ok(r) => r,
            Err(p) => {
                let msg = p.downcast_ref::<String>().cloned().or_else(|| p.downcast_ref::<&str>().map(|s| s.to_string())).unwrap_or_default();
                CaseReport { failure: Some(Failure::new("panic", msg)), ..Default::default() }
            }
        }
    };
    let mut fail = drive(seed, n_code, c08shared::scalar_strategy(), |c| guarded(&|| c08shared::exec_scalar(c)), &mut evals, &mut nontrivial).map(|(c, f)| ("code", c, f));
    if fail.is_none() {
        fail = drive(seed ^ 0xabcd, n_ser, c08shared::ser_case(), |c| guarded(&|| c08shared::exec_ser(c)), &mut evals, &mut nontrivial).map(|(c, f)| ("ser", c, f));
    }
    let out = match fail {
        None => json!({"evaluations": evals, "nontrivial": nontrivial, "failure": null}),
        Some((sub, case, f)) => json!({"evaluations": evals, "nontrivial": nontrivial, "sub": sub, "case": case, "failure": {"signature": f.signature, "message": f.message}}),
    };
    println!("SERDE-RESULT {out}");
}
