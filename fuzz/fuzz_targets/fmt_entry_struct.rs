#![no_main]
//! cargo-fuzz target `fmt_entry_struct`: the bytes are decoded and judged by fvcore::fuzzglue::run("fmt_entry_struct", ..) - the same oracle
//! `check` applies when it replays seed and crash inputs. A violated oracle panics so that libFuzzer keeps the input.
use libfuzzer_sys::fuzz_target;

fuzz_target!(|data: &[u8]| {
    if let Some(f) = fvcore::fuzzglue::run("fmt_entry_struct", data) {
        panic!("property violated: signature={} {}", f.signature, f.message);
    }
});
